"""Developer helper: generate and execute single runs in-process.
usage: VERIF_REPO=... /venv/bin/python tools_run1.py PID TIER LRU IDX [IDX...]"""
import sys, os, json
sys.path.insert(0, os.path.dirname(os.path.abspath(__file__)))
from sim import build, worker as W
pid, tier, lru = sys.argv[1:4]
src = build.ensure(verbose=False)
W.setup(src, lru, silence=True)
out = W.out()
m = W.machine(pid)
seed = int(os.environ.get("VERIF_SEED", "0"))
for idx in map(int, sys.argv[4:]):
    run = m.generate(seed, tier, idx, lru)
    res = W.execute(pid, run)
    print(json.dumps(run["ops"] if "ops" in run else run, default=str)[:1500], file=out)
    for v in res["violations"]:
        print("VIOL", v["sig"], "\n   ", v["detail"][:700], file=out)
    print("status", res["status"], res.get("error", "")[:2000], "probes", res.get("probes"), file=out)
