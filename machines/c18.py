"""C18 -- resistive-network quantities obey circuit laws and follow
update_resistances (history machine against a float64 reference circuit)."""
import numpy as np

from sim.machine import Machine, Result
from sim.seeds import Streams
from sim import compare as C
from models import graphs as G
from models.ref_circuit import Circuit

QUERIES_REAL = (
    "effective_resistance", "average_effective_resistance",
    "diameter_effective_resistance",
    "effective_resistance_closeness_centrality",
    "vertex_current_flow_betweenness", "edge_current_flow_betweenness",
    "admittive_degree", "average_neighbors_admittive_degree",
    "local_admittive_clustering", "global_admittive_clustering",
    "get_admittance", "get_R", "admittance_lapacian", "laws")
QUERIES_CPLX = ("effective_resistance", "admittive_degree", "get_admittance",
                "admittance_lapacian", "get_R",
                "local_admittive_clustering", "laws")


def make_graph(g):
    kind, n = g["kind"], g["n"]
    A = np.zeros((n, n), dtype=np.int8)
    if kind == "path":
        for i in range(n - 1):
            A[i, i + 1] = A[i + 1, i] = 1
    elif kind == "cycle":
        for i in range(n):
            A[i, (i + 1) % n] = A[(i + 1) % n, i] = 1
    elif kind == "ladder":
        h = n // 2
        for i in range(h):
            A[i, h + i] = A[h + i, i] = 1
            if i + 1 < h:
                A[i, i + 1] = A[i + 1, i] = 1
                A[h + i, h + i + 1] = A[h + i + 1, h + i] = 1
        if n % 2:
            A[n - 1, 0] = A[0, n - 1] = 1
    elif kind == "tree":
        A = G.components_graph([n], 0.0, g["gseed"], shuffle=False)
    else:
        A = G.components_graph([n], g["p"], g["gseed"])
    return A


def resist(A, rseed, cplx, ints, mag=1.0):
    n = A.shape[0]
    W = G.sym_matrix(n, rseed, 0.1, 10.0, ints=ints)
    R = W * A * mag
    if cplx:
        X = G.sym_matrix(n, rseed + 1, -3.0, 3.0) * A
        R = R + 1j * X
    return R


class C18(Machine):
    pid = "C18"
    shadow_generic = True

    def lru_configs(self, tier):
        return ["default", "shadow"]
    rule = ("run = connected graph recipe + resistances + 4..15 ops "
            "(update_resistances of three kinds interleaved with every "
            "resistive query and a circuit-law sweep). Non-trivial: at least "
            "one query evaluated after an update that followed an earlier "
            "query. Distinct: op-name sequence with argument kinds.")
    probe_names = ("query_after_update", "scale_update", "single_edge_update",
                   "complex_impedances", "series_law_checked",
                   "parallel_law_checked", "aliased_update",
                   "megaohm_circuit", "retyped_real_complex",
                   "two_networks_interleaved", "resistances_on_non_links",
                   "narrow_integer_resistances", "update_on_shallow_copy")
    real_vs_stub = {"real": ["ResNetwork (constructor, update_resistances, "
                             "all resistive queries, compiled VCFB/ECFB "
                             "kernels)"], "stub": []}
    assumptions = ["VCFB is judged against its defining sum without the "
                   "end-point terms (the compiled kernel's and the pinned "
                   "tests' convention, DESIGN §4 C18)",
                   "float32 kernels are compared with rel 1e-4 plus an "
                   "absolute floor of 1e-6*max|R^+|*max|adm|"]

    def budget(self, tier):
        if tier == "thorough":
            return {"wall": 540, "max_runs": 10 ** 9, "chunk": 40,
                    "task_cap": 300}
        return {"wall": 25, "max_runs": 10 ** 9, "chunk": 20, "task_cap": 120}

    def generate(self, seed, tier, idx, lru):
        S = Streams(seed, self.pid, tier, idx)
        a, o = S["args"], S["ops"]
        kind = a.choice(("random", "random", "random", "tree", "path",
                         "cycle", "ladder"))
        n = a.randrange(3, 10)
        g = {"kind": kind, "n": n, "p": a.choice((0.0, 0.2, 0.5, 1.0)),
             "gseed": a.randrange(10 ** 9)}
        cplx = a.random() < 0.12
        cfg = {"lru": lru, "complex": cplx, "ints": a.random() < 0.3,
               "rseed": a.randrange(10 ** 9),
               # milli-ohm ... mega-ohm circuits
               "mag": a.choice((1.0, 1.0, 1.0, 1e-3, 1e3, 1e6, 1e7, 1e-9)),
               # resistance tables in narrow integer types, or a bare
               # boolean link matrix (every link 1 Ohm)
               "rdtype": a.choice((None,) * 6 + ("int8", "uint8", "int16",
                                                  "bool")),
               "derive_adjacency": a.random() < 0.3,
               "extra_entries": a.random() < 0.3,
               "n_objects": a.choice((1, 1, 2))}
        names = QUERIES_REAL
        ops = []
        for _ in range(o.randrange(4, 16)):
            which = o.randrange(cfg["n_objects"])
            if o.random() < 0.3:
                k = o.choice(("random", "random", "scale", "scale", "edge",
                              "edge", "retype"))
                op = {"op": "update", "kind": k, "obj": which}
                if k == "random":
                    op["rseed"] = o.randrange(10 ** 9)
                elif k == "scale":
                    op["c"] = o.choice((0.25, 0.5, 2.0, 3.0, 10.0, 1.7) + (
                        (1e3, 1e6, 1e-6) if cfg["mag"] == 1.0 else ()))
                else:
                    op["e"] = o.randrange(10 ** 6)
                    op["value"] = o.choice((0.05, 1.0, 7.5, 100.0))
                # now and then the update goes to a shallow copy of the
                # network (copy.copy): the original keeps its circuit
                if k in ("random", "scale") and o.random() < 0.2:
                    op["on_copy"] = True
                # the caller may keep one array, edit it in place and pass
                # it again, or pass a new array each time
                op["alias"] = o.random() < 0.4
                ops.append(op)
            else:
                q = o.choice(names)
                op = {"op": "query", "name": q, "args": [], "obj": which}
                if q == "effective_resistance":
                    op["args"] = [o.randrange(n), o.randrange(n)]
                elif q in ("effective_resistance_closeness_centrality",
                           "vertex_current_flow_betweenness"):
                    op["args"] = [o.randrange(n)]
                ops.append(op)
        return {"property": self.pid, "seed": seed, "run": idx,
                "config": cfg, "graph": g, "ops": ops}

    def execute(self, run):
        from pyunicorn.core.resistive_network import ResNetwork
        R = Result()
        cfg, g = run["config"], run["graph"]
        mag = cfg.get("mag", 1.0)

        class Obj:
            pass
        objs = []
        for k in range(cfg.get("n_objects", 1)):
            o = Obj()
            gk = dict(g, gseed=g["gseed"] + 17 * k)
            o.A = make_graph(gk)
            o.n = o.A.shape[0]
            o.cplx = cfg["complex"]
            Rm = resist(o.A, cfg["rseed"] + 31 * k, o.cplx, cfg["ints"], mag)
            rdt = cfg.get("rdtype") if (cfg["ints"] and not o.cplx
                                        and mag == 1.0) else None
            if rdt == "bool":
                Rm = (o.A != 0).astype(float)
            elif rdt:
                Rm = Rm * 12.0            # whole numbers up to 108
            o.ref = Circuit(o.A, Rm)
            if cfg.get("extra_entries") and not cfg.get("derive_adjacency"):
                # resistance values also for node pairs that are not links:
                # with an explicit adjacency they must be ignored
                full = resist(np.ones_like(o.A) - np.eye(o.n, dtype=o.A.dtype),
                              cfg["rseed"] + 5 + k, o.cplx, False, mag)
                Rm = np.where(o.A != 0, Rm, full)
                R.probe("resistances_on_non_links")
            o.extra = Rm * (o.A == 0)
            o.held = Rm.copy()            # the caller's own array
            if rdt and not np.any(o.extra):
                o.held = Rm.astype(rdt)
                R.probe("narrow_integer_resistances")
            # constructor paths: adjacency given, or derived from the
            # non-zero resistances
            if cfg.get("derive_adjacency"):
                o.net = ResNetwork(o.held, silence_level=3)
            else:
                o.net = ResNetwork(o.held, adjacency=o.A.copy(),
                                   silence_level=3)
            o.n_upd = 0
            o.queried = False
            o.last_scale = None        # (c, ER matrix before)
            o.edges = [(i, j) for i in range(o.n) for j in range(i)
                       if o.A[i, j]]
            objs.append(o)
        if cfg["complex"]:
            R.probe("complex_impedances")
        if mag >= 1e6:
            R.probe("megaohm_circuit")
        if len(objs) > 1:
            R.probe("two_networks_interleaved")
        sig_ops = []
        held_results = []
        for step, op in enumerate(run["ops"]):
            R.steps += 1
            o = objs[op.get("obj", 0) % len(objs)]
            net, ref = o.net, o.ref
            tagobj = f"{op.get('obj', 0) % len(objs)}:"
            if op["op"] == "update":
                alias = op.get("alias")
                if op["kind"] == "retype":
                    # real <-> complex impedances on the same object
                    o.cplx = not o.cplx
                    new = resist(o.A, step + 1, o.cplx, False, mag)
                    o.last_scale = None
                    alias = False
                    R.probe("retyped_real_complex")
                elif op["kind"] == "random":
                    new = resist(o.A, op["rseed"], o.cplx, False, mag)
                    o.last_scale = None
                elif op["kind"] == "scale":
                    top = float(np.max(np.abs(ref.R))) * op["c"]
                    if not 1e-9 <= top <= 1e9:
                        continue      # keep the circuit representable
                    o.last_scale = (op["c"], ref.er_all())
                    new = ref.R * op["c"]
                    R.probe("scale_update")
                else:
                    i, j = o.edges[op["e"] % len(o.edges)]
                    new = ref.R.copy()
                    vals = np.abs(ref.R[ref.A != 0])
                    cur = 10.0 ** np.round(np.log10(np.median(vals) / 3.0))
                    new[i, j] = new[j, i] = op["value"] * cur + (
                        new[i, j].imag * 1j if o.cplx else 0)
                    o.last_scale = None
                    R.probe("single_edge_update")
                if op["kind"] == "scale":
                    o.extra = o.extra * op["c"]
                # entries on non-links keep whatever the caller has there,
                # in the type of the new matrix
                extra = o.extra if np.iscomplexobj(new) else np.real(o.extra)
                passed = new * (o.A != 0) + extra
                if op.get("on_copy"):
                    import copy as _copy
                    twin = _copy.copy(net)
                    out = C.call(twin.update_resistances, passed.copy())
                    R.probe("update_on_shallow_copy")
                    if isinstance(out, C.Raised):
                        R.violate(f"{self.pid}|update_resistances|raises",
                                  f"valid update of a copy raised {out!r}")
                        break
                    o.last_scale = None
                    sig_ops.append(tagobj + "uc:" + op["kind"])
                    R.trace.append(("update-on-copy", op["kind"]))
                    continue
                if alias and o.held.dtype == passed.dtype:
                    o.held[...] = passed     # in-place edit, same object
                    R.probe("aliased_update")
                else:
                    o.held = passed.copy()
                out = C.call(net.update_resistances, o.held)
                if isinstance(out, C.Raised):
                    R.violate(f"{self.pid}|update_resistances|raises",
                              f"valid update raised {out!r}")
                    break
                ref.set_R(new * (o.A != 0))
                o.n_upd += 1
                sig_ops.append(tagobj + "u:" + op["kind"])
                R.trace.append(("update", op["kind"]))
                continue
            name = op["name"]
            if o.cplx and name not in QUERIES_CPLX:
                continue          # judged for real impedances only
            sig_ops.append(tagobj + "q:" + name)
            when = "updated" if o.n_upd else "initial"
            if o.n_upd and o.queried:
                R.nontrivial = True
                R.probe("query_after_update")
            o.queried = True
            args = [a % o.n for a in op["args"]]
            if name == "laws":
                self._laws(R, net, ref, g, o.cplx, o.last_scale, when)
                continue
            got = C.call(getattr(net, name), *args)
            want, tol = self._ref(ref, name, args)
            ok, why = C.same(got, want, tol)
            # results that were handed out earlier are the caller's: a user
            # who compares "before" and "after" an update must still hold
            # the "before" values
            for (hn, hstep, arr, snap_) in held_results:
                if arr.tobytes() != snap_:
                    R.violate(f"{self.pid}|{hn}|returned-array-overwritten",
                              f"step {step}: the array that {hn} returned at "
                              f"step {hstep} changed when {name} was "
                              f"evaluated", victim=f"{hn}|returned-array")
            held_results[:] = [h for h in held_results
                               if h[2].tobytes() == h[3]]
            if isinstance(got, np.ndarray) and got.size and ok:
                R.probe("returned_array_held")
                held_results.append((name, step, got, got.tobytes()))
                del held_results[:-6]
            R.trace.append((name, args, C.digest_of(
                np.round(np.asarray(got, dtype=complex), 5)
                if not isinstance(got, C.Raised) else got)))
            if not ok:
                R.violate(f"{self.pid}|{name}|value|{when}",
                          f"step {step}: {name}{tuple(args)} = "
                          f"{C.short(got)} but the circuit model gives "
                          f"{C.short(want)} ({why}); updates so far "
                          f"{o.n_upd}", victim=f"{name}|value")
        R.opsig = C.digest_of(repr((g["kind"], sig_ops)))
        return R.as_dict()

    @staticmethod
    def _ref(ref, name, args):
        scale = float(np.max(np.abs(ref.P))) or 1.0
        gmax = float(np.max(np.abs(ref.adm))) or 1.0
        tight = (1e-8, 1e-9 * max(scale, 1.0))
        f32 = (1e-4, 1e-6 * scale * gmax)
        if name == "effective_resistance":
            return ref.er(*args), tight
        if name == "average_effective_resistance":
            return ref.average_er(), tight
        if name == "diameter_effective_resistance":
            return ref.diameter_er(), tight
        if name == "effective_resistance_closeness_centrality":
            return ref.ercc(*args), tight
        if name == "vertex_current_flow_betweenness":
            return ref.vcfb(*args), f32
        if name == "edge_current_flow_betweenness":
            return ref.ecfb(), f32
        if name == "admittive_degree":
            return ref.admittive_degree(), (1e-9, 1e-12 * gmax)
        if name == "average_neighbors_admittive_degree":
            return ref.anad(), (1e-9, 1e-12)
        if name == "local_admittive_clustering":
            return ref.local_clustering(), (1e-8, 1e-12 * gmax ** 2)
        if name == "global_admittive_clustering":
            return ref.local_clustering().mean(), (1e-8, 1e-12 * gmax ** 2)
        if name == "get_admittance":
            return ref.adm, (1e-12, 0.0)
        if name == "get_R":
            return ref.P, tight
        if name == "admittance_lapacian":
            return ref.L, (1e-12, 1e-12 * gmax)
        raise KeyError(name)

    def _laws(self, R, net, ref, g, cplx, last_scale, when):
        n = ref.N
        ER = C.call(lambda: np.array(
            [[net.effective_resistance(a, b) for b in range(n)]
             for a in range(n)]))
        if isinstance(ER, C.Raised):
            R.violate(f"{self.pid}|effective_resistance|raises|{when}",
                      f"effective_resistance raised {ER!r}",
                      victim="effective_resistance|raises")
            return
        scale = float(np.max(np.abs(ER))) or 1.0
        gv = np.abs(ref.adm[ref.adm != 0])
        kappa = float(gv.max() / gv.min()) if gv.size else 1.0
        # the pseudo-inverse loses about log10(kappa) digits
        eps = 1e-10 * max(10.0, kappa) * scale

        def bad(law, detail):
            R.violate(f"{self.pid}|effective_resistance|law:{law}|{when}",
                      detail, victim=f"effective_resistance|law:{law}")
        R.trace.append(("laws", C.digest_of(np.round(ER, 6))))
        if np.any(np.abs(np.diag(ER)) > 0):
            bad("zero-diagonal", f"ER(a,a) = {np.diag(ER)}")
        if np.max(np.abs(ER - ER.T)) > eps:
            bad("symmetry", f"max |ER - ER^T| = {np.max(np.abs(ER - ER.T))}")
        if last_scale is not None:
            c, before = last_scale
            if np.max(np.abs(ER - c * before)) > 10 * eps + 1e-8 * float(
                    np.max(np.abs(c * before))):
                bad("scaling", f"after scaling all resistances by {c} the "
                               f"effective resistances did not scale: max "
                               f"dev {np.max(np.abs(ER - c * before))}")
        if cplx:
            return
        off = ER[~np.eye(n, dtype=bool)]
        if np.any(off <= 0):
            bad("positivity", f"min off-diagonal ER = {off.min()}")
        for a in range(n):
            for b in range(n):
                if np.any(ER[a, :] + ER[:, b] < ER[a, b] - eps):
                    bad("triangle", f"ER({a},{b}) exceeds a detour")
                    break
        D = ref.shortest_path_resistance()
        if np.any(ER > D + eps + 1e-9 * float(np.max(D))):
            bad("path-bound", "ER exceeds the resistance of a connecting "
                              f"path: max excess {np.max(ER - D)}")
        fo = sum(ER[i, j] / ref.R[i, j] for i in range(n) for j in range(i)
                 if ref.A[i, j])
        if abs(fo - (n - 1)) > 1e-10 * max(10.0, kappa) * n * n:
            bad("foster", f"sum ER/r over links = {fo}, N-1 = {n - 1}")
        if g["kind"] == "path":
            R.probe("series_law_checked")
            s = sum(ref.R[i, i + 1] for i in range(n - 1))
            if abs(ER[0, n - 1] - s) > eps + 1e-9 * s:
                bad("series", f"chain end-to-end ER {ER[0, n - 1]} != sum "
                              f"of resistances {s}")
        if g["kind"] == "cycle":
            R.probe("parallel_law_checked")
            r = [ref.R[i, (i + 1) % n] for i in range(n)]
            for b in range(1, n):
                p1 = sum(r[:b])
                p2 = sum(r[b:])
                want = p1 * p2 / (p1 + p2)
                if abs(ER[0, b] - want) > eps + 1e-9 * want:
                    bad("parallel", f"cycle ER(0,{b}) = {ER[0, b]} != "
                                    f"{want} (two parallel branches)")
                    break


MACHINE = C18()
