"""C09 -- similarity networks link exactly the pairs above the threshold
(history machine over set_threshold / set_link_density / set_non_local /
set_winter_only against an independent numpy thresholding model)."""
import numpy as np

from sim.machine import Machine, Result
from sim.seeds import Streams
from sim import compare as C
from models import graphs as G

CLASSES = ("ClimateNetwork",) * 6 + ("Tsonis", "Spearman", "Partial")
TIES = (0.1, 0.25, 0.3, 0.5, 0.75, 0.9)


def make_grid(g):
    from pyunicorn.core.geo_grid import GeoGrid
    r = G.rng_of(g["gseed"])
    n = g["n"]
    lat, lon = [], []
    for i in range(n):
        c = r.random()
        if i and c < g.get("p_anti", 0.0):
            # a global grid: the antipode of an earlier node, or a second
            # station at the very same place (cosine of the distance is -1
            # or +1 up to rounding)
            j = r.randrange(i)
            c2 = r.random()
            if c2 < 0.2:
                lat.append(-lat[j])         # mirrored at the equator
                lon.append(lon[j])
            elif c2 < 0.75:
                lat.append(-lat[j])
                lon.append(lon[j] + 180.0 if lon[j] < 0 else lon[j] - 180.0)
            else:
                lat.append(lat[j])
                lon.append(lon[j])
        elif i and c < g.get("p_anti", 0.0) + g["p_close"]:
            j = r.randrange(i)            # a close neighbour (< 0.05 rad)
            lat.append(max(-85.0, min(85.0, lat[j] + r.uniform(-2, 2))))
            lon.append(lon[j] + r.uniform(-2, 2))
        elif g.get("p_anti"):
            lat.append(float(r.randrange(-88, 89)))      # whole degrees
            lon.append(float(r.randrange(-179, 180)))
        else:
            lat.append(round(r.uniform(-80, 80), 2))
            lon.append(round(r.uniform(-170, 170), 2))
    return GeoGrid(time_seq=np.arange(g["T"], dtype=float),
                   lat_seq=np.array(lat), lon_seq=np.array(lon),
                   silence_level=2)


def make_similarity(s, n):
    r = G.rng_of(s["sseed"])
    S = np.zeros((n, n))
    for i in range(n):
        for j in range(n):
            if i == j:
                S[i, j] = 1.0
            elif j > i or s["asym"]:
                v = r.choice(TIES) if s["ties"] else round(
                    r.uniform(0.0, 1.0), 4)
                S[i, j] = -v if (s["neg"] and r.random() < 0.4) else v
            else:
                S[i, j] = S[j, i]
    return S


def ulp32(x):
    return float(np.spacing(np.float32(abs(x))))


class C09(Machine):
    pid = "C09"
    shadow_generic = True
    rule = ("run = class + grid + similarity (ties, signs, asymmetric with "
            "directed=True) or generated ClimateData + 4..15 setter/read ops. "
            "Non-trivial: >= 2 setters with the invariants evaluated between "
            "them. Distinct: class + op-name/argument-kind sequence.")
    probe_names = ("threshold_equal_to_entry", "density_0_or_1",
                   "non_local_toggled", "non_local_damped_pair",
                   "boundary_pairs_skipped", "ties_at_selected_threshold",
                   "directed_asymmetric", "winter_only_toggled",
                   "monotonicity_pairs_checked",
                   "fortran_ordered_similarity",
                   "antipodal_or_coincident_nodes")
    # reported, un-judged conditions (not in probe_names: zero is fine)
    info_probes = ("asymmetric_similarity_undirected",
                   "density_clause_skipped_small_diagonal")
    real_vs_stub = {"real": ["ClimateNetwork, TsonisClimateNetwork, "
                             "SpearmanClimateNetwork, "
                             "PartialCorrelationClimateNetwork, GeoGrid, "
                             "ClimateData"], "stub": []}
    assumptions = [
        "the similarity matrix the object reports and the grid's angular "
        "distance are taken as given where finite (their correctness is "
        "C10/C12); an undefined (NaN) distance is replaced by the double-"
        "precision haversine distance, and pairs that the two distances put "
        "on different sides of the threshold are not judged",
        "the density clause is generated with a unit diagonal dominating "
        "all entries, as for any self-similarity",
        "pairs within 16 float32 ulps of the threshold are not judged when "
        "the damping product is involved (mixed precision in the code)"]

    def lru_configs(self, tier):
        return ["default", "1", "off", "shadow"] if tier == "thorough" \
            else ["default", "shadow"]

    def budget(self, tier):
        if tier == "thorough":
            return {"wall": 540, "max_runs": 10 ** 9, "chunk": 30,
                    "task_cap": 300}
        return {"wall": 25, "max_runs": 10 ** 9, "chunk": 15, "task_cap": 120}

    def generate(self, seed, tier, idx, lru):
        S = Streams(seed, self.pid, tier, idx)
        a, o = S["args"], S["ops"]
        cls = a.choice(CLASSES)
        n = a.randrange(2, 11)
        g = {"n": n, "T": 10, "gseed": a.randrange(10 ** 9),
             "p_close": a.choice((0.0, 0.3, 0.6)),
             "p_anti": a.choice((0.0, 0.0, 0.0, 0.4))}
        cfg = {"lru": lru, "class": cls,
               "non_local": a.random() < 0.3,
               "init": a.choice(("threshold", "density"))}
        sim = None
        if cls == "ClimateNetwork":
            asym = a.random() < 0.25
            sim = {"sseed": a.randrange(10 ** 9), "ties": a.random() < 0.5,
                   "neg": a.random() < 0.5, "asym": asym,
                   # memory layout and dtype of the caller's matrix
                   "layout": a.choice(("C", "C", "F")),
                   "dtype": a.choice(("float64", "float64", "float32"))}
            cfg["directed"] = asym or a.random() < 0.1
        else:
            g["T"] = a.choice((24, 36, 40))
            cfg["dseed"] = a.randrange(10 ** 9)
            cfg["winter_only"] = a.random() < 0.5
        cfg["init_value"] = self._val(a, cfg["init"], n)
        ops = []
        for _ in range(o.randrange(4, 16)):
            k = o.choice(("set_threshold",) * 3 + ("set_link_density",) * 3
                         + ("set_non_local",) * 2 + ("read",)
                         + (("set_winter_only",) if sim is None else ()))
            op = {"op": k}
            if k == "set_threshold":
                op["value"] = self._val(o, "threshold", n)
            elif k == "set_link_density":
                op["value"] = self._val(o, "density", n)
            elif k in ("set_non_local", "set_winter_only"):
                op["value"] = o.random() < 0.5
            ops.append(op)
        return {"property": self.pid, "seed": seed, "run": idx,
                "config": cfg, "grid": g, "similarity": sim, "ops": ops}

    @staticmethod
    def _val(r, kind, n):
        if kind == "threshold":
            c = r.random()
            if c < 0.4:
                return r.choice(TIES)
            if c < 0.5:
                return {"entry": r.randrange(10 ** 6)}   # an entry of W
            return round(r.uniform(-0.1, 1.1), 3)
        c = r.random()
        m = n * (n - 1)
        if c < 0.15:
            return r.choice((0.0, 1.0))
        if c < 0.5:
            return r.randrange(0, m + 1) / m
        return round(r.random(), 3)

    # ------------------------------------------------------------------
    def execute(self, run):
        from pyunicorn.climate.climate_network import ClimateNetwork
        R = Result()
        cfg, g = run["config"], run["grid"]
        n = g["n"]
        grid = make_grid(g)
        cls = cfg["class"]
        directed = cfg.get("directed", False)
        kw = {"non_local": cfg["non_local"], "silence_level": 2}

        def resolve(v, W):
            if isinstance(v, dict):
                flat = np.asarray(W).ravel()
                x = float(flat[v["entry"] % flat.size])
                if np.isfinite(x):
                    R.probe("threshold_equal_to_entry")
                    return x
                return 0.5
            return v
        if cls == "ClimateNetwork":
            S0 = make_similarity(run["similarity"], n)
            W0 = np.abs(S0.astype("float32"))
            iv = resolve(cfg["init_value"], W0)
            kw[cfg["init"] if cfg["init"] == "threshold" else
               "link_density"] = iv
            Sin = S0.astype(run["similarity"].get("dtype", "float64"))
            if run["similarity"].get("layout") == "F":
                Sin = np.asfortranarray(Sin)
                R.probe("fortran_ordered_similarity")
            net = C.call(lambda: ClimateNetwork(
                grid=grid, similarity_measure=Sin, directed=directed,
                **kw))
            if directed and run["similarity"]["asym"]:
                R.probe("directed_asymmetric")
        else:
            from pyunicorn.climate.climate_data import ClimateData
            from pyunicorn.climate.tsonis import TsonisClimateNetwork
            from pyunicorn.climate.spearman import SpearmanClimateNetwork
            from pyunicorn.climate.partial_correlation import \
                PartialCorrelationClimateNetwork
            X = G.series(g["T"], n, cfg["dseed"])
            data = ClimateData(observable=X, grid=grid, time_cycle=12,
                               silence_level=2)
            K = {"Tsonis": TsonisClimateNetwork,
                 "Spearman": SpearmanClimateNetwork,
                 "Partial": PartialCorrelationClimateNetwork}[cls]
            iv = cfg["init_value"]
            if isinstance(iv, dict):
                iv = 0.5
            kw[cfg["init"] if cfg["init"] == "threshold" else
               "link_density"] = iv
            net = C.call(lambda: K(data, winter_only=cfg["winter_only"],
                                   **kw))
            S0 = None
        if isinstance(net, C.Raised):
            if cls == "ClimateNetwork":
                R.violate(f"{self.pid}|{cls}|constructor-raises|{net.type}",
                          f"constructor raised {net!r}",
                          victim=f"{cls}|constructor-raises")
            else:
                R.undefined += 1     # e.g. singular correlation matrix
            R.opsig = C.digest_of(repr((cls, "ctor-raised")))
            return R.as_dict()
        state = {"non_local": cfg["non_local"],
                 "winter": cfg.get("winter_only"),
                 "density_req": iv if cfg["init"] == "density" else None}
        hist = []
        sigops = [cfg["init"]]
        self._check(R, net, cls, state, hist, "init:" + cfg["init"], S0,
                    directed, iv if cfg["init"] == "threshold" else None)
        setters = 0
        for step, op in enumerate(run["ops"]):
            R.steps += 1
            k = op["op"]
            sigops.append(k)
            expect_thr = None
            state["density_req"] = None
            if k == "read":
                pass
            else:
                setters += 1
                if setters >= 2:
                    R.nontrivial = True
                v = op.get("value")
                if k == "set_threshold":
                    v = resolve(v, np.asarray(net.similarity_measure()))
                    expect_thr = v
                elif k == "set_link_density":
                    state["density_req"] = v
                    if v in (0.0, 1.0):
                        R.probe("density_0_or_1")
                elif k == "set_non_local":
                    if v != state["non_local"]:
                        R.probe("non_local_toggled")
                    state["non_local"] = v
                    expect_thr = net.threshold()
                elif k == "set_winter_only":
                    if v != state["winter"]:
                        R.probe("winter_only_toggled")
                    state["winter"] = v
                    expect_thr = net.threshold()
                out = C.call(getattr(net, k), v)
                if isinstance(out, C.Raised):
                    if k == "set_winter_only" and out.type in (
                            "LinAlgError",):
                        R.undefined += 1
                        break
                    R.violate(f"{self.pid}|{cls}|raises|{k}",
                              f"step {step}: {k}({v!r}) raised {out!r}",
                              victim=f"{cls}|raises")
                    break
            self._check(R, net, cls, state, hist, k, S0, directed,
                        expect_thr)
        R.opsig = C.digest_of(repr((cls, directed, sigops)))
        return R.as_dict()

    def _check(self, R, net, cls, state, hist, opname, S0, directed,
               expect_thr):
        pid = self.pid

        def bad(inv, detail):
            R.violate(f"{pid}|{cls}|{inv}|{opname.split(':')[0]}", detail,
                      victim=f"{cls}|{inv}")
        A = np.asarray(net.adjacency)
        n = A.shape[0]
        if S0 is not None:
            # the model's similarity is the caller's input, not what the
            # object reports
            W = np.abs(S0.astype("float32"))
        else:
            W = np.abs(np.asarray(net.similarity_measure()))
        thr = net.threshold()
        R.trace.append((opname, C.digest_of(A), repr(float(thr))))
        if not np.all(np.isfinite(W)) or not np.isfinite(thr):
            # degenerate statistics (NaN similarities): outside the domain
            R.undefined += 1
            return
        if expect_thr is not None and float(thr) != float(expect_thr):
            bad("threshold-report", f"threshold() = {thr!r}, expected "
                                    f"{expect_thr!r}")
        if net.non_local() != state["non_local"]:
            bad("non-local-report", f"non_local() = {net.non_local()}")
        # ---- I1: links exactly where the (damped) similarity exceeds thr
        W64 = W.astype(np.float64)
        thr64 = float(thr)
        representable = float(np.float32(thr64)) == thr64
        if state["non_local"]:
            D = np.asarray(net.grid.angular_distance()).astype(np.float64)
            # the great-circle distance again, in double precision
            # (haversine): where the grid's single-precision value is
            # undefined (NaN) the documented weight is still defined, and
            # where the two put a pair on different sides of the threshold
            # the pair is a numerical boundary case
            gg = net.grid.grid()
            la = np.radians(np.asarray(gg["lat"], dtype=np.float64))
            lo = np.radians(np.asarray(gg["lon"], dtype=np.float64))
            h = np.sin((la[:, None] - la[None, :]) / 2) ** 2 + \
                np.cos(la)[:, None] * np.cos(la)[None, :] * \
                np.sin((lo[:, None] - lo[None, :]) / 2) ** 2
            D64 = 2 * np.arcsin(np.sqrt(np.clip(h, 0.0, 1.0)))
            # undefined, or further from the double-precision value than
            # single-precision arccos can be (5e-4 rad at the poles of the
            # cosine): not a distance the documented weight can be taken at
            with np.errstate(invalid="ignore"):
                undefined = ~np.isfinite(D) | (np.abs(D - D64) > 2e-3)
            if np.any(undefined):
                R.probe("grid_distance_undefined")
            if np.any(np.abs(D64 - np.pi) < 1e-6) or np.any(
                    (D64 < 1e-9) & ~np.eye(n, dtype=bool)):
                R.probe("antipodal_or_coincident_nodes")
            D = np.where(undefined, D64, D)
            damp = 0.5 * (np.tanh(20.0 * (D - 0.05)) + 1.0)
            Wp = W64 * damp
            Wp64 = W64 * 0.5 * (np.tanh(20.0 * (D64 - 0.05)) + 1.0)
            if np.any((damp < 0.999) & ~np.eye(n, dtype=bool)):
                R.probe("non_local_damped_pair")
            skip = np.abs(Wp - thr64) <= 16 * np.maximum(
                ulp32(thr64), np.spacing(Wp.astype(np.float32)).astype(float))
            skip |= (Wp > thr64) != (Wp64 > thr64)
        else:
            Wp = W64
            if representable:
                skip = np.zeros((n, n), dtype=bool)
            elif type(thr) is float:
                # a threshold as the caller typed it (0.3): the stored
                # single-precision similarities are compared with a Python
                # float in single precision (NumPy >= 2), so 0.3 ties with
                # the entry that float32(0.3) is -- decided exactly
                skip = np.zeros((n, n), dtype=bool)
                Wp = W.astype(np.float32).astype(np.float64)
                thr64 = float(np.float32(thr64))
                R.probe("typed_threshold_ties_decided_in_float32")
            else:
                skip = np.abs(Wp - thr64) <= 4 * ulp32(thr64)
        expect = (Wp > thr64) & ~np.eye(n, dtype=bool)
        nskip = int(np.sum(skip & ~np.eye(n, dtype=bool)))
        if nskip:
            R.probe("boundary_pairs_skipped", nskip)
        diff = (A.astype(bool) != expect) & ~skip
        if np.any(diff):
            i, j = np.argwhere(diff)[0]
            bad("links-vs-threshold",
                f"pair ({i},{j}): adjacency {A[i, j]}, similarity "
                f"{Wp[i, j]!r} vs threshold {thr64!r} (non_local="
                f"{state['non_local']}); {int(diff.sum())} pairs differ")
        if np.any(np.diag(A) != 0):
            bad("self-loop", "adjacency has a non-empty diagonal")
        # ---- I3 symmetric similarity => undirected adjacency
        symW = np.array_equal(W, W.T)
        if symW and not np.array_equal(A, A.T):
            bad("asymmetric-adjacency", "symmetric similarity gave an "
                                        "asymmetric adjacency")
        if not symW and not directed:
            # an undirected network on a similarity that is not exactly
            # symmetric (partial correlations from a numerically inverted
            # matrix): outside the statement's premise, only I1 is judged
            R.probe("asymmetric_similarity_undirected")
            hist.append(((state["non_local"], state["winter"]), thr64,
                         A.copy()))
            return
        # ---- I2 mutual consistency
        nz = int(A.sum())
        want_links = nz if directed else nz // 2
        spA = np.asarray(net.sp_A.todense())
        if not np.array_equal(spA, A):
            bad("consistency", "adjacency != sp_A")
        if net.n_links != want_links:
            bad("consistency", f"n_links = {net.n_links}, adjacency has "
                               f"{want_links}")
        if net.graph.ecount() != want_links or net.graph.vcount() != n:
            bad("consistency", f"embedded graph has {net.graph.ecount()} "
                               f"links, adjacency {want_links}")
        if n > 1 and abs(net.link_density - nz / (n * (n - 1))) > 1e-12:
            bad("consistency", f"link_density = {net.link_density}, "
                               f"adjacency gives {nz / (n * (n - 1))}")
        # ---- I5 density clause
        rho = state["density_req"]
        if rho is not None and n > 1 and W.diagonal().min() < W.max():
            R.probe("density_clause_skipped_small_diagonal")
        elif rho is not None and n > 1:
            M = n * (n - 1)
            off = ~np.eye(n, dtype=bool)
            if not np.any(W == thr):
                bad("density-threshold-not-an-entry",
                    f"selected threshold {thr!r} is not a similarity value")
            dens = nz / M
            if dens > rho + 1e-12:
                bad("density-exceeds-request",
                    f"requested {rho}, realised {dens}")
            if not state["non_local"]:
                ties = int(np.sum((W == thr) & off))
                if ties:
                    R.probe("ties_at_selected_threshold")
                # the code selects sorted[floor((1-rho)M)]: the request is
                # missed by the entries tied with the selected one (which is
                # itself one of them), never by more
                if rho * M - nz > ties + 1e-9:
                    bad("density-missed",
                        f"requested {rho} ({rho * M:.3f} links), realised "
                        f"{nz}, only {ties} pairs tied at the threshold")
        # ---- I4 raising the threshold only removes links
        key = (state["non_local"], state["winter"])
        for (k2, t2, A2) in hist:
            if k2 != key:
                continue
            R.probe("monotonicity_pairs_checked")
            if thr64 >= t2 and np.any(A > A2):
                bad("monotonicity", f"threshold {t2} -> {thr64} added links")
            if thr64 <= t2 and np.any(A < A2):
                bad("monotonicity", f"threshold {t2} -> {thr64} removed "
                                    f"links")
        hist.append((key, thr64, A.copy()))


MACHINE = C09()
