"""C01 -- results always reflect the object's current state.

History machine over every memoising class: seeded sequences of public
mutators interleaved with queries, 1-3 live objects sharing the class-level
LRU (capacity fixed per worker before import).  Oracle: a fresh twin built
from the reference model of the object's current primary inputs, judged
after the object's own history has run (so twins never disturb the cache
dynamics under test).
"""
import contextlib
import copy
import gc
import inspect
import itertools
import os
import random
import shutil
import zlib

import numpy as np

from sim.machine import Machine, Result
from sim.seeds import Streams, derive
from sim import compare as C
from sim import shadow

_Q = {}


def queries_for(spec):
    """[(name, kw)] for a spec's class (discovered once per worker)."""
    if spec.name not in _Q:
        from registry import queries as QR
        cls = spec.cls()
        qs = QR.discover(cls, spec.deny)
        if spec.family == "network":
            for a in QR.SUMMARY_ATTRS:
                qs.append(("attr:" + a, {}))
        _Q[spec.name] = qs
    return _Q[spec.name]


def state_queries_for(spec):
    """queries_for plus the state attributes only C01 reads (attributes
    that documented state-changing calls re-assign)."""
    return queries_for(spec) + [("attr:" + a, {})
                                for a in getattr(spec, "extra_attrs", ())]


def net_query_names():
    from registry.specs import BY_NAME
    return {n for n, _ in queries_for(BY_NAME["Network"])}


def invoke(obj, name, kw, model):
    """Call a query.  kw may carry the reserved key "@pos": the LRU keys
    entries by the argument pattern at the call site, so the same logical
    query is asked (0) with keywords, (1) positionally, (2) positionally with
    the first omitted parameter given its default explicitly, (3) with
    keywords and one omitted parameter passed as its default by keyword --
    the patterns the library's own internal callers use."""
    from registry.specs import resolve_arg
    if name.startswith("attr:"):
        return getattr(obj, name[5:])
    pos = kw.get("@pos", 0)
    # some "deterministic" queries draw tie-breaking noise from numpy's global
    # RNG (CouplingAnalysis' nearest-neighbour estimators): every invocation
    # of a query pattern starts from the same RNG state, so equal calls on
    # equal objects are comparable
    rs = zlib.crc32(qkey(name, kw).encode()) & 0x7fffffff
    np.random.seed(rs)
    random.seed(rs)
    args = {k: (getattr(type(obj), v[8:]) if isinstance(v, str)
                and v.startswith("@static:") else resolve_arg(v, model))
            for k, v in kw.items() if not k.startswith("@")}
    # node lists as list / range / integer array / tuple
    seq = kw.get("@seq", 0)
    if seq:
        for k, v in list(args.items()):
            if isinstance(v, list) and v and all(
                    isinstance(x, int) for x in v) and isinstance(
                        kw[k], str) and kw[k].startswith("@half"):
                args[k] = (range(v[0], v[-1] + 1), np.array(v),
                           tuple(v))[seq - 1]
    f = getattr(obj, name)
    pargs = []
    if pos in (1, 2):
        try:
            params = list(inspect.signature(f).parameters.values())
        except (TypeError, ValueError):
            params = []
        for prm in params:
            if prm.kind not in (prm.POSITIONAL_ONLY,
                                prm.POSITIONAL_OR_KEYWORD):
                break
            if prm.name in args:
                pargs.append(args.pop(prm.name))
            elif pos == 2 and prm.default is not prm.empty:
                pargs.append(prm.default)
                pos = 1
            else:
                break
    if pos == 3:
        # keywords, one omitted parameter passed as its default by keyword
        # (internal callers: self.nsi_degree(typical_weight=typical_weight))
        try:
            omitted = [prm for prm in
                       inspect.signature(f).parameters.values()
                       if prm.name not in args and prm.default is not prm.empty
                       and prm.kind in (prm.POSITIONAL_OR_KEYWORD,
                                        prm.KEYWORD_ONLY)]
        except (TypeError, ValueError):
            omitted = []
        if omitted:
            prm = omitted[kw.get("@k", 0) % len(omitted)]
            args[prm.name] = prm.default
    out = f(*pargs, **args)
    if hasattr(out, "__next__"):
        out = list(out)
    return out


def with_pos(kw, rnd):
    """The query pattern kw with a seeded call-site pattern."""
    if any(isinstance(v, str) and v.startswith("@half")
           for v in kw.values()) and rnd.random() < 0.4:
        kw = dict(kw, **{"@seq": rnd.randrange(1, 4)})
    c = rnd.random()
    if c < 0.45:
        return kw
    if c < 0.85:
        return dict(kw, **{"@pos": 1 if c < 0.7 else 2})
    return dict(kw, **{"@pos": 3, "@k": rnd.randrange(4)})


def snap(v):
    try:
        return copy.deepcopy(v)
    except Exception:
        return v


def qkey(name, kw):
    return name + "(" + ",".join(f"{k}={kw[k]}" for k in sorted(kw)
                                 if not k.startswith("@")) + ")"


@contextlib.contextmanager
def cwd(path):
    old = os.getcwd()
    os.makedirs(path, exist_ok=True)
    os.chdir(path)
    try:
        yield
    finally:
        os.chdir(old)


def run_dirs():
    base = os.path.join(os.environ.get("VERIF_SCRATCH",
                                       "/var/tmp/pyunicorn-verif"),
                        f"run-{os.getpid()}")
    shutil.rmtree(base, ignore_errors=True)
    return base, os.path.join(base, "obj"), os.path.join(base, "twin")


class C01(Machine):
    pid = "C01"
    run_wall_cap = 60.0
    minimise_by = "victim"
    rule = ("two layers: (a) pair sweep -- for a fixed seeded input per "
            "class, every (mutator, query pattern): build; [earlier mutators]; q; "
            "fillers; m; fillers; q (small classes: every chain of earlier mutators, "
            "the same mutator repeating its arguments half of the time); "
            "(b) random histories of 6..30 ops over 1..3 live objects "
            "(build / query / mutate / discard+rebuild).  Query patterns are "
            "discovered by introspection. Non-trivial: some query pattern "
            "was evaluated both before and after a mutator on the same "
            "object and returned a value (not an exception) that was "
            "compared with the twin's. Distinct: class + op names with "
            "argument patterns.")
    probe_names = ("query_after_mutation", "value_compared_after_mutation",
                   "both_raised",
                   "projection_twin_used", "discard_rebuild",
                   "multi_object", "reinit_mutator", "objects_of_equal_shape")
    # informational (zero is fine): query_order_effect, valid_mutator_raised,
    # nondeterministic_query, projection_not_comparable
    real_vs_stub = {"real": ["every memoising class with its public "
                             "constructor, mutators and queries; "
                             "core/cache.py with the LRU knob set before "
                             "import; the working directory (durable "
                             "mutual-information cache files)"],
                    "stub": []}
    assumptions = [
        "twins are fresh objects built by the public constructor from the "
        "model's current primary inputs (projection twin = plain Network of "
        "the un-memoised primary state where the constructor cannot express "
        "the state)",
        "a divergence reproduced by replaying the object's earlier *queries* "
        "on a fresh twin is a query-order effect: reported under the "
        "signature kind 'query-order' (C06 names the perpetrator)",
        "bookkeeping accessors, randomised generators, I/O and plotting are "
        "not queries", "refused mutator calls are not generated"]

    def lru_configs(self, tier):
        if tier == "thorough":
            return ["default", "1", "2", "8", "inf", "off", "shadow"]
        return ["default", "2", "off", "shadow"]

    def budget(self, tier):
        if tier == "thorough":
            return {"wall": 840, "max_runs": 10 ** 9, "chunk": 10,
                    "task_cap": 400}
        return {"wall": 70, "max_runs": 10 ** 9, "chunk": 10,
                "task_cap": 200}

    # ------------------------------------------------------------ pair table
    _pairs = {}

    def pairs(self, seed=0, tier="thorough"):
        """(class, mutator, query pattern) table.  Thorough: everything.
        Quick: for subclasses, all patterns of methods the class does not
        share with Network / InteractingNetworks, plus a seed-dependent
        sample of the shared ones (the base classes sweep those in full)."""
        key = (seed if tier != "thorough" else 0, tier)
        if key not in C01._pairs:
            from registry.specs import SPECS
            from pyunicorn.core.network import Network
            from pyunicorn.core.interacting_networks import \
                InteractingNetworks
            rnd = random.Random(derive(seed, "c01-pair-sample"))
            out = []
            # classes with few mutators and queries: every chain of up to
            # two (three for the smallest) earlier mutators in front of the
            # pair -- a mutator that undoes or repeats an earlier one is
            # where stale results hide
            for s in SPECS:
                muts = [mu.name for mu in s.mutators()]
                qs = state_queries_for(s) if muts else []
                if not muts or len(muts) * len(qs) > 150:
                    continue
                depth = 2 if len(muts) * len(qs) <= 30 else 1
                chains = [c for d in range(1, depth + 1)
                          for c in itertools.product(muts, repeat=d)]
                for pre in chains:
                    for mn in muts:
                        for (qn, kw) in qs:
                            out.append((s.name, mn, qn, kw, pre))
            for s in SPECS:
                muts = s.mutators()
                if not muts:
                    continue
                cls = s.cls()
                qs = state_queries_for(s)
                if tier != "thorough" and cls not in (Network,
                                                      InteractingNetworks):
                    own, shared = [], []
                    for q in qs:
                        f = getattr(cls, q[0], None)
                        inh = any(f is not None and
                                  getattr(b, q[0], None) is f
                                  for b in (Network, InteractingNetworks))
                        (shared if inh and not q[0].startswith("attr:")
                         else own).append(q)
                    qs = own + rnd.sample(shared, min(len(shared), 30))
                for mu in muts:
                    for (qn, kw) in qs:
                        out.append((s.name, mu.name, qn, kw))
            if tier != "thorough":
                # whatever the budget reaches is a uniform sample of the
                # table (the small-class chains stay in front)
                n_front = sum(1 for x in out if len(x) == 5)
                tail = out[n_front:]
                rnd.shuffle(tail)
                out = out[:n_front] + tail
            C01._pairs[key] = out
        return C01._pairs[key]

    def generate(self, seed, tier, idx, lru):
        from registry.specs import BY_NAME, SPECS
        nconf = len(self.lru_configs(tier))
        pairs = self.pairs(seed, tier)
        # two pair-sweep runs for every random history, so that both layers
        # progress whatever the budget; the sweep starts at a seed-dependent
        # offset, so that a budget that does not finish it still covers
        # every pair over a few seeds
        k = idx // nconf if tier == "thorough" else idx
        is_pair = (k % 3) != 2
        p = (k // 3) * 2 + (k % 3)
        S = Streams(seed, self.pid, tier, idx)
        a, o = S["args"], S["ops"]
        rounds = 3 if tier == "thorough" else 1
        if is_pair and (k // 3) * 2 + (k % 3) < rounds * len(pairs):
            cname, mname, qn, kw = pairs[p % len(pairs)][:4]
            pre = (pairs[p % len(pairs)] + ((),))[4]
            spec = BY_NAME[cname]
            mu = next(m for m in spec.mutators() if m.name == mname)
            ms = derive(seed, "model", cname, p // len(pairs))
            for j in range(50):
                model = spec.gen_model(random.Random(ms + j))
                if mu.when(model):
                    ms += j
                    break
            qs = state_queries_for(spec)
            ops = [{"op": "build", "obj": 0, "cls": cname, "ms": ms}]
            # earlier state changes; the same mutator later in the run gets
            # the same arguments half of the time ("the same call again")
            used = {}
            if not pre and len(spec.mutators()) > 1 and a.random() < 0.3:
                names = [m_.name for m_ in spec.mutators()]
                pre = (names[a.randrange(len(names))],)
            for mn in pre:
                used[mn] = used[mn] if mn in used and a.random() < 0.5 \
                    else a.randrange(10 ** 9)
                ops.append({"op": "mutate", "obj": 0, "name": mn,
                            "as": used[mn]})
            kw = with_pos(kw, a)
            ops.append({"op": "query", "obj": 0, "name": qn, "kw": kw})
            for _ in range(a.randrange(0, 3)):
                fn, fk = qs[a.randrange(len(qs))]
                ops.append({"op": "query", "obj": 0, "name": fn,
                            "kw": with_pos(fk, a)})
            ops.append({"op": "mutate", "obj": 0, "name": mname,
                        "as": used[mname] if mname in used
                        and a.random() < 0.5 else a.randrange(10 ** 9)})
            # other queries on the new state before the one under test
            for _ in range(a.randrange(0, 3)):
                fn, fk = qs[a.randrange(len(qs))]
                ops.append({"op": "query", "obj": 0, "name": fn,
                            "kw": with_pos(fk, a)})
            ops.append({"op": "query", "obj": 0, "name": qn, "kw": kw})
            return {"property": self.pid, "seed": seed, "run": idx,
                    "config": {"lru": lru, "layer": "pair"}, "ops": ops}
        # ---- random histories
        cands = [s for s in SPECS if s.mutators()]
        # the one class with durable state gets a larger share
        cands += [s for s in cands if s.name == "MutualInfoClimateNetwork"] * 3
        # small classes are cheap and get few pair runs: more histories
        cands += [s for s in cands if not s.net_level] * 2
        spec = cands[a.randrange(len(cands))]
        nobj = a.choice((1, 1, 2, 3))
        ops = []
        live = []
        build_ms = {}
        for i in range(nobj):
            build_ms[i] = a.randrange(10 ** 9)
            bop = {"op": "build", "obj": i, "cls": spec.name,
                   "ms": build_ms[i]}
            if i and a.random() < 0.5:
                # same sizes and options as the first object, other data
                bop["shape_of"] = build_ms[0]
            ops.append(bop)
            live.append(i)
        qs = state_queries_for(spec)
        muts = spec.mutators()
        hot = [qs[a.randrange(len(qs))] for _ in range(4)]
        hot = [(qn_, with_pos(kw_, a)) for qn_, kw_ in hot]
        last_as = {}
        for _ in range(o.randrange(6, 31)):
            i = live[o.randrange(len(live))]
            c = o.random()
            if c < 0.55:
                if o.random() < 0.6:
                    qn, kw = hot[o.randrange(len(hot))]
                else:
                    qn, kw = qs[o.randrange(len(qs))]
                    kw = with_pos(kw, o)
                ops.append({"op": "query", "obj": i, "name": qn, "kw": kw})
            elif c < 0.93:
                mu = muts[o.randrange(len(muts))]
                # a quarter of the calls repeat the arguments this mutator
                # got last time in this run
                mop = {"op": "mutate", "obj": i, "name": mu.name,
                       "as": last_as[mu.name] if mu.name in last_as
                       and o.random() < 0.25 else o.randrange(10 ** 9)}
                last_as[mu.name] = mop["as"]
                ops.append(mop)
                if spec.name == "MutualInfoClimateNetwork" and \
                        mu.name == "set_winter_only" and o.random() < 0.6:
                    # fault: the write of the durable cache file is cut
                    # short (disk full) -- the call may fail, the object is
                    # then dropped and rebuilt from the same data in the
                    # same directory: only the file survives
                    mop["cut"] = o.choice((0, 10, 100, 200, 400))
                    ops.append({"op": "discard", "obj": i,
                                "ms": build_ms[i], "after_fault": True})
                    # the same change again, without the fault: this reads
                    # whatever the cut write left behind
                    ops.append({"op": "mutate", "obj": i, "name": mu.name,
                                "as": mop["as"]})
                    for _ in range(2):
                        qn, kw = qs[o.randrange(len(qs))]
                        ops.append({"op": "query", "obj": i, "name": qn,
                                    "kw": kw})
            else:
                # drop the object and build a new one -- from other inputs,
                # or from the very same inputs in the same directory
                ops.append({"op": "discard", "obj": i,
                            "ms": build_ms[i] if o.random() < 0.5
                            else o.randrange(10 ** 9)})
        return {"property": self.pid, "seed": seed, "run": idx,
                "config": {"lru": lru, "layer": "history"}, "ops": ops}

    # ------------------------------------------------------------ execution
    def execute(self, run):
        from registry.specs import BY_NAME, clone
        R = Result()
        base, odir, tdir = run_dirs()
        np.random.seed(run["run"] % (2 ** 31))
        random.seed(run["run"])
        objs = {}
        records = []
        sig = []
        shadow.reset()
        try:
            for step, op in enumerate(run["ops"]):
                R.steps += 1
                k = op["op"]
                self._shadow_events(R, step, objs)
                if k in ("build", "discard"):
                    if k == "discard":
                        cls = objs[op["obj"]]["spec"].name
                        objs.pop(op["obj"], None)
                        gc.collect()
                        R.probe("discard_rebuild")
                    else:
                        cls = op["cls"]
                    spec = BY_NAME[cls]
                    model = spec.gen_model(random.Random(op["ms"]))
                    if op.get("shape_of") is not None:
                        from registry.specs import reseed
                        model = reseed(
                            spec.gen_model(random.Random(op["shape_of"])),
                            random.Random(op["ms"]))
                        R.probe("objects_of_equal_shape")
                    with cwd(odir):
                        obj = C.call(spec.build, model)
                    sig.append(f"{k}:{cls}")
                    if isinstance(obj, C.Raised):
                        R.trace.append((step, "build-raised", obj.type))
                        objs[op["obj"]] = {"spec": spec, "retired": True}
                        # the same constructor call in an empty directory
                        shutil.rmtree(tdir, ignore_errors=True)
                        with cwd(tdir):
                            tw = C.call(spec.build, clone(model))
                        if not isinstance(tw, C.Raised):
                            R.violate(
                                f"{self.pid}|{cls}|working-directory|"
                                f"constructor",
                                f"step {step}: constructing {cls} in the "
                                f"run's working directory raised {obj!r}; "
                                f"the same call in an empty directory "
                                f"succeeds (files left behind: "
                                f"{sorted(os.listdir(odir))})",
                                victim=f"{cls}|constructor")
                        continue
                    objs[op["obj"]] = {
                        "spec": spec, "model": model, "obj": obj,
                        "since": [], "allq": [], "retired": False,
                        "muts": [], "seen": {}}
                    if len([o_ for o_ in objs.values()
                            if not o_.get("retired")]) > 1:
                        R.probe("multi_object")
                    continue
                st = objs.get(op["obj"])
                if st is None or st["retired"]:
                    continue
                spec, model = st["spec"], st["model"]
                if k == "query":
                    name, kw = op["name"], op["kw"]
                    with cwd(odir):
                        val = C.call(invoke, st["obj"], name, kw, model)
                    key = qkey(name, kw)
                    sig.append("q:" + key)
                    requery = bool(st["muts"] and key in st["seen"])
                    if requery:
                        R.probe("query_after_mutation")
                    records.append({
                        "requery": requery,
                        "step": step, "spec": spec, "model": clone(model),
                        "name": name, "kw": kw, "val": snap(val),
                        "since": list(st["since"]), "allq": list(st["allq"]),
                        "muts": list(st["muts"]), "key": key})
                    st["since"].append((name, kw))
                    st["allq"].append((name, kw))
                    st["seen"][key] = True
                    R.trace.append((step, key, C.digest_of(val)))
                elif k == "mutate":
                    mu = next((m for m in spec.mutators()
                               if m.name == op["name"]), None)
                    if mu is None or not mu.when(model):
                        continue
                    args = mu.gen(random.Random(op["as"]), model)
                    with cwd(odir):
                        if "cut" in op:
                            out = self._with_write_cut(
                                R, op["cut"], mu.apply, st["obj"], args,
                                model)
                        else:
                            out = C.call(mu.apply, st["obj"], args, model)
                    sig.append("m:" + mu.name)
                    if isinstance(out, C.Raised) and "cut" in op:
                        # the injected fault made the call fail: the object
                        # is in an unknown state and is dropped
                        R.trace.append((step, "mutator-failed-under-fault",
                                        mu.name, out.type))
                        st["retired"] = True
                        continue
                    if isinstance(out, C.Raised) and os.path.isdir(odir) \
                            and os.listdir(odir) and out.type in (
                                "UnpicklingError", "EOFError"):
                        R.violate(
                            f"{self.pid}|{spec.name}|working-directory|"
                            f"{mu.name}",
                            f"step {step}: {mu.name} raised {out!r} because "
                            f"of a file left behind in the working "
                            f"directory ({sorted(os.listdir(odir))})",
                            victim=f"{spec.name}|{mu.name}")
                        st["retired"] = True
                        continue
                    if isinstance(out, C.Raised):
                        R.probe("valid_mutator_raised")
                        R.trace.append((step, "mutator-raised", mu.name,
                                        out.type))
                        R.covered("mutator_raised",
                                  f"{spec.name}.{mu.name}:{out.type}")
                        st["retired"] = True
                        continue
                    mu.update(model, args, st["obj"])
                    if mu.reinit:
                        R.probe("reinit_mutator")
                    st["since"] = []
                    st["muts"].append(mu.name)
                    R.trace.append((step, "m", mu.name))
            self._shadow_events(R, len(run["ops"]), objs)
            shadow.STATE["enabled"] = False
            if shadow.STATE["installed"]:
                h, nd = shadow.take_counts()
                R.probe("shadow_hits_reevaluated", h)
                if nd:
                    R.probe("shadow_nondeterministic_method", nd)
            # ---------------- phase 2: judge every recorded query
            for rec in records:
                self._judge(R, rec, tdir)
        finally:
            objs.clear()
            shadow.reset()
            shutil.rmtree(base, ignore_errors=True)
        R.opsig = C.digest_of(repr(sig))
        return R.as_dict()

    def _shadow_events(self, R, step, objs):
        """Shadow configuration: hits whose re-evaluation differs."""
        for e in shadow.drain():
            if e["kind"] != "stale":
                R.probe("shadow_edited_left_to_C06")
                continue
            muts = sorted({m_ for st in objs.values()
                           for m_ in st.get("muts", [])})
            R.probe("shadow_stale_hit")
            R.violate(
                f"{self.pid}|{e['cls']}|shadow|{e['method']}",
                f"before step {step}: {e['qual']}{e['args']} was served from "
                f"the cache although re-evaluating it on the object as it is "
                f"now gives another value ({e['why']}); mutators so far: "
                f"{muts}",
                victim=f"{e['cls']}|shadow:{e['method']}")

    @staticmethod
    def _with_write_cut(R, cut, f, *a):
        """Run f with every file write of the process cut at `cut` bytes
        (RLIMIT_FSIZE, SIGXFSZ ignored): short write / disk full."""
        import resource
        import signal
        soft, hard = resource.getrlimit(resource.RLIMIT_FSIZE)
        old = signal.signal(signal.SIGXFSZ, signal.SIG_IGN)
        try:
            resource.setrlimit(resource.RLIMIT_FSIZE, (cut, hard))
            out = C.call(f, *a)
        finally:
            resource.setrlimit(resource.RLIMIT_FSIZE, (soft, hard))
            signal.signal(signal.SIGXFSZ, old)
        R.fault("cache_write_cut", 1)
        if isinstance(out, C.Raised):
            R.fault("cache_write_cut_raised", 1)
        return out

    def _twin(self, rec, tdir):
        """Fresh twin for the record's model; None if not judgeable."""
        spec, m = rec["spec"], rec["model"]
        shutil.rmtree(tdir, ignore_errors=True)
        with cwd(tdir):
            if spec.derived_A and m.get("A_assigned"):
                if not spec.projectable(rec["name"]):
                    return None, "class-level query on an assigned adjacency"
                w = m.get("w", "default")
                if w == "default":
                    m0 = dict(m)
                    m0["A_assigned"], m0["attrs"] = False, {}
                    w = spec.construct(m0).node_weights
                else:
                    from registry.specs import mat
                    w = mat(w)
                return spec.projection(m, w), "projection"
            return spec.build(m), "constructor"

    def _judge(self, R, rec, tdir):
        spec, m, name, kw = rec["spec"], rec["model"], rec["name"], rec["kw"]
        val = rec["val"]

        def fresh(replay=()):
            tw, how = self._twin_safe(rec, tdir)
            if tw is None:
                return None, how
            with cwd(tdir):
                for (qn, qk) in replay:
                    C.call(invoke, tw, qn, qk, m)
                return C.call(invoke, tw, name, kw, m), how
        tv, how = fresh()
        if how == "unjudged":
            return
        if how == "projection":
            R.probe("projection_twin_used")
        R.covered("pairs", f"{spec.name}|{'+'.join(rec['muts'][-1:])}|"
                           f"{rec['key']}")
        if isinstance(val, C.Raised) and isinstance(tv, C.Raised) and \
                val.type == tv.type:
            R.probe("both_raised")
            return
        # a projection twin is an object of a base class: where the
        # object's own class overrides something the query calls, one side
        # raises and the other does not -- nothing to compare
        if how == "projection" and (isinstance(val, C.Raised)
                                    or isinstance(tv, C.Raised)):
            R.probe("projection_not_comparable")
            return
        # a projection twin holds float64 copies of weights the object may
        # keep in single precision: compare at single-precision accuracy
        tol = (1e-4, 1e-6) if how == "projection" else "tight"
        ok, why = C.same(val, tv, tol)
        if ok:
            if rec.get("requery") and not isinstance(val, C.Raised):
                # a real value was compared after a mutation of the object
                R.nontrivial = True
                R.probe("value_compared_after_mutation")
            return
        tv2, _ = fresh()
        if not C.same(tv, tv2, tol)[0]:
            # two identical fresh objects disagree: nondeterministic query,
            # never judged
            R.probe("nondeterministic_query")
            R.covered("nondeterministic", f"{spec.name}|{rec['key']}")
            return
        for replay in (rec["since"], rec["allq"]):
            if replay:
                hv, _ = fresh(replay)
                if C.same(val, hv, tol)[0]:
                    # an earlier *query* (not a state change) changed what
                    # this one returns: still a value that a newly
                    # constructed object does not report -- a violation of
                    # the statement's first sentence, reported under its own
                    # signature (C06 reports the perpetrator)
                    R.probe("query_order_effect")
                    R.covered("query_order_effects",
                              f"{spec.name}|{rec['key']}")
                    R.violate(
                        f"{self.pid}|{spec.name}|query-order|{rec['key']}",
                        f"step {rec['step']}: {spec.name}.{rec['key']} "
                        f"returned {C.short(val)}; a newly constructed "
                        f"object with the same current inputs ({how} twin) "
                        f"returns {C.short(tv)} ({why}), and returns the "
                        f"object's value once it has been asked the "
                        f"object's earlier queries "
                        f"{[q_[0] for q_ in replay][-6:]}: an earlier query "
                        f"changed what this one returns",
                        victim=f"{spec.name}|{rec['key']}")
                    return
        trig = "+".join(sorted(set(rec["muts"]))) or "none"
        R.violate(
            f"{self.pid}|{spec.name}|{trig}|{rec['key']}",
            f"step {rec['step']}: {spec.name}.{rec['key']} after "
            f"[{', '.join(rec['muts'])}] returned {C.short(val)}; a newly "
            f"constructed object with the same current inputs ({how} twin) "
            f"returns {C.short(tv)} ({why})",
            victim=f"{spec.name}|{rec['key']}")

    def _twin_safe(self, rec, tdir):
        out = C.call(self._twin, rec, tdir)
        if isinstance(out, C.Raised):
            return None, "unjudged"
        tw, how = out
        if tw is None:
            return None, "unjudged"
        return tw, how

    # ------------------------------------------------------------ shrinking
    def shrink(self, run, still_fails):
        from sim import minimise as M

        def keep(i, op):
            return op["op"] == "build"
        best = M.shrink_ops(run, still_fails, keep=keep)
        return best

    def sample(self, run):
        return run


MACHINE = C01()
