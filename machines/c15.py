"""C15 -- surrogates preserve exactly what each method promises.

Surrogate machine: repeated, interleaved generator calls on one Surrogates
object and one RecurrencePlot, with *every* random draw supplied by the
simulator (sim/world/rng_seam.py); per-method invariant checkers always
against the model's current original data.
"""
import numpy as np

from sim.machine import Machine, Result
from sim.seeds import Streams
from sim import compare as C
from sim.errors import DrawBudgetExceeded
from models import graphs as G
from models import ref_surrogates as RS

GEN_OPS = ("white", "corr", "aaft", "raaft", "twin_surr", "twins",
           "rp_twins", "rp_twin_surr", "embed", "normalize", "rp_set")


def make_data(d):
    """[N, T] array, values pairwise distinct within a series."""
    r = G.rng_of(d["s"])
    N, T = d["N"], d["T"]
    X = np.zeros((N, T))
    for i in range(N):
        if d["kind"] == "periodic":
            P = r.choice((3, 4, 5, 6))
            base = [round(r.uniform(-2, 2), 2) for _ in range(P)]
            for t in range(T):
                X[i, t] = base[t % P] + 1e-5 * t + 1e-7 * i
        else:
            x = r.gauss(0, 1)
            for t in range(T):
                x = 0.7 * x + r.gauss(0, 1)
                X[i, t] = round(x, 4) + 1e-6 * t
    return X


class C15(Machine):
    pid = "C15"
    shadow_generic = True

    def lru_configs(self, tier):
        return ["default", "shadow"]
    rule = ("run = data set (N 1..4 series, T 8..40 odd and even, AR or "
            "near-periodic so that twins exist) + RNG personality + 3..15 "
            "generator calls repeated and interleaved on the same Surrogates "
            "and RecurrencePlot objects. Non-trivial: >= 2 generator calls "
            "on one object, one of them after a Fourier-type call. "
            "Distinct: op sequence + personality + (N, T parity).")
    probe_names = ("repeated_generator_call", "after_fourier_call",
                   "after_normalize", "twins_nonempty", "twin_jump_taken",
                   "walk_restart", "identical_gaussians_or_sticky",
                   "odd_length", "even_length", "rp_twin_surrogates_ok",
                   "float32_input", "failed_call_in_between",
                   "rp_criterion_changed", "recurrence_network_object",
                   "integer_input")
    real_vs_stub = {"real": ["Surrogates (all generators, twins, "
                             "normalisation, embedding), RecurrencePlot."
                             "twins / twin_surrogates, the compiled twin and "
                             "walk kernels"],
                    "stub": ["every random source: numpy.random as seen by "
                             "timeseries/surrogates.py, stdlib random and "
                             "datetime as seen by timeseries/_ext/numerics "
                             "(scripted, legal values, adversarial patterns)"]}
    assumptions = [
        "draw values are always legal for the imitated call; personalities "
        "only change their pattern",
        "a walk transition is judged legal if it goes to the successor of "
        "the state or of one of its twins, or if one of these successors "
        "runs off the end (restart)",
        "Fourier guarantees are checked to 1e-9 of the largest amplitude"]

    def budget(self, tier):
        if tier == "thorough":
            return {"wall": 540, "max_runs": 10 ** 9, "chunk": 20,
                    "task_cap": 300}
        return {"wall": 35, "max_runs": 10 ** 9, "chunk": 10, "task_cap": 150}

    def generate(self, seed, tier, idx, lru):
        from sim.world.rng_seam import PERSONALITIES
        S = Streams(seed, self.pid, tier, idx)
        a, o = S["args"], S["ops"]
        d = {"N": a.choice((1, 1, 2, 3, 4)), "T": a.randrange(8, 41),
             "kind": a.choice(("ar", "periodic", "periodic")),
             "s": a.randrange(10 ** 9),
             "dtype": a.choice(("float64", "float64", "float64", "float32",
                                "float32", "int64"))}
        cfg = {"lru": lru, "personality": a.choice(PERSONALITIES),
               "rp": {"dim": a.choice((1, 2, 3)), "tau": a.choice((1, 1, 2)),
                      "thr": a.choice((0.05, 0.3, 1.0)),
                      "cls": a.choice(("RecurrencePlot", "RecurrencePlot",
                                       "RecurrenceNetwork"))}}
        ops = []
        for _ in range(o.randrange(3, 16)):
            k = o.choice(GEN_OPS[:8] * 3 + GEN_OPS[8:])
            op = {"op": k}
            if k == "raaft":
                op.update(n=o.choice((1, 2, 3)),
                          output=o.choice(("true_amplitudes", "true_spectrum",
                                           "both")))
            if k == "twin_surr" and o.random() < 0.15:
                # a call that fails half-way (a delay given as a float is
                # refused while re-embedding); its outcome is not judged,
                # what comes after it is
                op["failing"] = True
            if k in ("twin_surr", "twins", "embed"):
                op.update(dim=o.choice((1, 2, 3)), delay=o.choice((1, 2)),
                          thr=o.choice((0.01, 0.05, 0.3, 1.0)),
                          min_dist=o.choice((0, 1, 2, 4, 7)))
            if k in ("rp_twins", "rp_twin_surr"):
                op.update(min_dist=o.choice((0, 1, 2, 4, 7)),
                          n=o.choice((1, 2, 3)))
            if k == "rp_set":
                # the recurrence criterion of the plot / network changes
                op["kind"] = o.choice(("threshold", "threshold_std",
                                       "recurrence_rate"))
                op["v"] = {"threshold": o.choice((0.05, 0.3, 1.0)),
                           "threshold_std": o.choice((0.1, 0.5)),
                           "recurrence_rate": o.choice((0.1, 0.3, 0.5))}[
                               op["kind"]]
            ops.append(op)
        return {"property": self.pid, "seed": seed, "run": idx,
                "config": cfg, "data": d, "ops": ops}

    # ------------------------------------------------------------------
    def execute(self, run):
        import random as pyrandom
        from pyunicorn.timeseries.surrogates import Surrogates
        from pyunicorn.timeseries.recurrence_plot import RecurrencePlot
        from sim.world import rng_seam as RNG
        R = Result()
        cfg, d = run["config"], run["data"]
        S = Streams(run["seed"], self.pid, "draws", run["run"])
        sr = RNG.ScriptedRandom(S["draws"], cfg["personality"])
        X = make_data(d)                 # the model's original data
        if d.get("dtype") == "float32":
            # the caller's array is single precision; the model holds the
            # same values
            X = X.astype(np.float32).astype(np.float64)
            R.probe("float32_input")
        if d.get("dtype") == "int64":
            # count data: integers, still pairwise distinct within a series
            X = (np.round(X * 1e4) * 100 + np.arange(X.shape[1])[None, :]
                 ).astype(np.int64).astype(np.float64)
            R.probe("integer_input")
        N, T = X.shape
        R.probe("odd_length" if T % 2 else "even_length")
        if cfg["personality"] in ("sticky", "low_entropy"):
            R.probe("identical_gaussians_or_sticky")
        sur = Surrogates(X.astype(d.get("dtype", "float64")),
                         silence_level=3)
        rpc = cfg["rp"]
        n_rp = T - (rpc["dim"] - 1) * rpc["tau"]
        if n_rp < 3:
            rpc = dict(rpc, dim=1)
            n_rp = T
        rp_cls = RecurrencePlot
        if rpc.get("cls") == "RecurrenceNetwork":
            from pyunicorn.timeseries.recurrence_network import \
                RecurrenceNetwork
            rp_cls = RecurrenceNetwork
            R.probe("recurrence_network_object")
        rp = rp_cls(X[0].copy(), threshold=rpc["thr"],
                    dim=rpc["dim"], tau=rpc["tau"],
                    metric="supremum", silence_level=3)
        rp_thr = rpc["thr"]                # None: criterion set by a setter
                                           # whose threshold the model does
                                           # not recompute
        E_rp = RS.embed(X[0].astype(np.float32).astype(float), rpc["dim"],
                        rpc["tau"])
        emb = None                         # (dim, delay) of sur.embedding
        calls = {}
        fourier_seen = False
        normalized = False
        gen_calls = 0
        sig = [cfg["personality"], N, T % 2]
        self._R = R
        # single-precision data carry single-precision spectra
        self._spec_tol = 1e-5 if d.get("dtype") == "float32" else 1e-9
        with RNG.installed(sr):
            for step, op in enumerate(run["ops"]):
                R.steps += 1
                k = op["op"]
                sig.append(k)
                sr.begin_op()
                rep = "repeated" if calls.get(k) else "first"
                calls[k] = calls.get(k, 0) + 1
                self._tag = (k, rep)
                try:
                    if k == "normalize":
                        if d.get("dtype") == "int64":
                            continue      # refused for integer arrays
                        out = C.call(sur.normalize_original_data)
                        if isinstance(out, C.Raised):
                            self._bad("normalize-raises", f"step {step}: "
                                      f"normalize_original_data() raised "
                                      f"{out!r} on non-constant series")
                            break
                        # zero mean, unit variance per series, evaluated in
                        # the precision of the caller's array
                        Xd = X.astype(d.get("dtype", "float64"))
                        mu = Xd.mean(axis=1)
                        sd = Xd.std(axis=1)
                        for i in range(N):
                            Xd[i, :] -= mu[i]
                            if sd[i] != 0:
                                Xd[i, :] /= sd[i]
                        X = Xd.astype(np.float64)
                        normalized = True
                        continue
                    if k == "embed":
                        if T - (op["dim"] - 1) * op["delay"] < 3:
                            continue
                        sur.embedding = sur.embed_time_series_array(
                            sur.original_data, op["dim"], op["delay"])
                        emb = [RS.embed(X[i], op["dim"], op["delay"])
                               for i in range(N)]
                        continue
                    if k in ("white", "corr", "aaft", "raaft", "twin_surr",
                             "rp_twin_surr"):
                        gen_calls += 1
                        if gen_calls >= 2:
                            R.probe("repeated_generator_call")
                            if fourier_seen:
                                R.nontrivial = True
                                R.probe("after_fourier_call")
                        if normalized:
                            R.probe("after_normalize")
                    if k == "white":
                        out = C.call(sur.white_noise_surrogates)
                        self._perm(out, X, step)
                    elif k == "corr":
                        out = C.call(sur.correlated_noise_surrogates)
                        self._spec(out, X, step)
                        fourier_seen = True
                    elif k == "aaft":
                        out = C.call(sur.AAFT_surrogates)
                        self._perm(out, X, step)
                        fourier_seen = True
                    elif k == "raaft":
                        out = C.call(sur.refined_AAFT_surrogates, op["n"],
                                     op["output"])
                        fourier_seen = True
                        if isinstance(out, C.Raised):
                            self._bad("raises", f"step {step}: {out!r}")
                        elif op["output"] == "true_amplitudes":
                            self._perm(out, X, step)
                        elif op["output"] == "true_spectrum":
                            self._spec(out, X, step, full=True)
                        else:
                            self._perm(out[0], X, step)
                            self._spec(out[1], X, step, full=True)
                    elif k in ("twins", "twin_surr"):
                        if k == "twins" and emb is None:
                            continue
                        if k == "twin_surr":
                            if T - (op["dim"] - 1) * op["delay"] < 3:
                                continue
                            if op.get("failing"):
                                bad = C.call(sur.twin_surrogates, op["dim"],
                                             float(op["delay"]), op["thr"],
                                             op["min_dist"])
                                if isinstance(bad, C.Raised):
                                    R.probe("failed_call_in_between")
                                    # whatever embedding survived is not
                                    # known: explicit twins() calls are
                                    # not judged until the next embedding
                                    emb = None
                                    continue
                            emb = [RS.embed(X[i], op["dim"], op["delay"])
                                   for i in range(N)]
                        # twins() works on the embedding that was assigned,
                        # i.e. on the data as they were at that time
                        want = [RS.twins_from_R(RS.recurrence_sup(
                            emb[i], op["thr"]), op["min_dist"])
                            for i in range(N)]
                        if any(t for w_ in want for t in w_):
                            R.probe("twins_nonempty")
                        if k == "twins":
                            out = C.call(sur.twins, op["thr"],
                                         op["min_dist"])
                            self._twins(out, want, step)
                        else:
                            out = C.call(sur.twin_surrogates, op["dim"],
                                         op["delay"], op["thr"],
                                         op["min_dist"])
                            self._walk_s(out, X, want, step)
                    elif k == "rp_set":
                        setter = {"threshold": "set_fixed_threshold",
                                  "threshold_std": "set_fixed_threshold_std",
                                  "recurrence_rate":
                                      "set_fixed_recurrence_rate"}[op["kind"]]
                        out = C.call(getattr(rp, setter), op["v"])
                        R.probe("rp_criterion_changed")
                        if isinstance(out, C.Raised):
                            self._bad("rp-setter-raises", f"step {step}: "
                                      f"{setter}({op['v']}) raised {out!r}")
                            break
                        rp_thr = op["v"] if op["kind"] == "threshold" \
                            else None
                    elif k in ("rp_twins", "rp_twin_surr"):
                        if rp_thr is not None:
                            Rm = (np.max(np.abs(E_rp[:, None, :]
                                                - E_rp[None, :, :]), axis=2)
                                  < rp_thr).astype(int)
                            # distances within float32 rounding of the
                            # threshold are not decidable from outside
                            Dm = np.max(np.abs(E_rp[:, None, :]
                                               - E_rp[None, :, :]), axis=2)
                            if np.any(np.abs(Dm - rp_thr) < 1e-5):
                                continue
                        else:
                            # the matrix the object reports now; every
                            # state recurs with itself by definition
                            Rm = np.array(rp.recurrence_matrix(), dtype=int)
                            # (unless nothing recurs at all: a rate below
                            # 1/n selects the threshold 0)
                            if Rm.any() and not np.all(np.diag(Rm) == 1):
                                self._bad("rp-diagonal", f"step {step}: the "
                                          f"recurrence matrix has "
                                          f"{int((np.diag(Rm) != 1).sum())} "
                                          f"states that do not recur with "
                                          f"themselves")
                                break
                        want = RS.twins_from_R(Rm, op["min_dist"])
                        if any(want):
                            R.probe("twins_nonempty")
                        if k == "rp_twins":
                            out = C.call(rp.twins, op["min_dist"])
                            self._twins([out[:len(want)]]
                                        if not isinstance(out, C.Raised)
                                        else out, [want], step)
                        else:
                            out = C.call(rp.twin_surrogates, op["n"],
                                         op["min_dist"])
                            self._walk_r(out, rp, want, step)
                except DrawBudgetExceeded:
                    R.undefined += 1
                    break
                R.trace.append((step, k, sr.total))
        R.opsig = C.digest_of(repr(sig))
        R.trace.append(("draws", sr.total, sorted(sr.by_site.items())))
        return R.as_dict()

    # ------------------------------------------------------------ checkers
    def _bad(self, check, detail):
        k, rep = self._tag
        self._R.violate(f"{self.pid}|{k}|{check}|{rep}", detail,
                        victim=f"{k}|{check}")

    def _perm(self, out, X, step):
        if isinstance(out, C.Raised):
            return self._bad("raises", f"step {step}: {out!r}")
        out = np.asarray(out)
        if out.shape != X.shape:
            return self._bad("shape", f"step {step}: shape {out.shape} vs "
                                      f"{X.shape}")
        if not np.array_equal(np.sort(out, axis=1), np.sort(X, axis=1)):
            i = int(np.argmax(np.any(np.sort(out, axis=1)
                                     != np.sort(X, axis=1), axis=1)))
            self._bad("not-a-permutation",
                      f"step {step}: row {i} is not a permutation of the "
                      f"current original data")

    def _spec(self, out, X, step, full=False):
        if isinstance(out, C.Raised):
            return self._bad("raises", f"step {step}: {out!r}")
        out = np.asarray(out)
        if out.shape != X.shape:
            return self._bad("shape", f"step {step}: shape {out.shape} vs "
                                      f"{X.shape}")
        dev = RS.spectrum_dev(out, X, full)
        if not dev <= self._spec_tol:
            self._bad("amplitude-spectrum" + ("-all" if full else ""),
                      f"step {step}: amplitude spectrum deviates by {dev:.3g} "
                      f"(relative to the largest amplitude) at non-zero, "
                      f"non-Nyquist frequencies")

    def _twins(self, out, want, step):
        if isinstance(out, C.Raised):
            return self._bad("raises", f"step {step}: {out!r}")
        try:
            got = [[sorted(int(x) for x in t) for t in series]
                   for series in out]
        except Exception as e:            # noqa: BLE001
            return self._bad("twins-malformed", f"step {step}: {e!r}")
        exp = [[sorted(t) for t in series] for series in want]
        if got != exp:
            self._bad("twins-differ",
                      f"step {step}: twins {str(got)[:160]} vs reference "
                      f"{str(exp)[:160]}")

    def _walk_s(self, out, X, want, step):
        if isinstance(out, C.Raised):
            return self._bad("raises", f"step {step}: {out!r}")
        out = np.asarray(out)
        N = X.shape[0]
        n = len(want[0])
        if out.shape != (N, n):
            return self._bad("shape", f"step {step}: shape {out.shape} vs "
                                      f"{(N, n)}")
        for i in range(N):
            pos = {float(v): t for t, v in enumerate(X[i])}
            idx = [pos.get(float(v)) for v in out[i]]
            if any(t is None or t >= n for t in idx):
                return self._bad("not-an-original-state",
                                 f"step {step}: series {i} contains a value "
                                 f"that is not an (embeddable) original "
                                 f"sample")
            self._walk(idx, want[i], n, step, i)

    def _walk_r(self, out, rp, want, step):
        if isinstance(out, C.Raised):
            return self._bad("raises", f"step {step}: {out!r}")
        out = np.asarray(out)
        E = np.asarray(rp.embedding)
        n = E.shape[0]
        if out.ndim != 3 or out.shape[1:] != E.shape:
            return self._bad("shape", f"step {step}: shape {out.shape} vs "
                                      f"(*, {E.shape})")
        self._R.probe("rp_twin_surrogates_ok")
        pos = {tuple(map(float, row)): t for t, row in enumerate(E)}
        for s in range(out.shape[0]):
            idx = [pos.get(tuple(map(float, row))) for row in out[s]]
            if any(t is None for t in idx):
                return self._bad("not-an-original-state",
                                 f"step {step}: surrogate {s} contains a "
                                 f"state that is not an original state")
            self._walk(idx, want, n, step, s)

    def _walk(self, idx, twins, n, step, i):
        bad = RS.walk_legal(idx, twins, n)
        for j in range(len(idx) - 1):
            if idx[j + 1] != idx[j] + 1:
                if idx[j + 1] - 1 in twins[idx[j]]:
                    self._R.probe("twin_jump_taken")
                else:
                    self._R.probe("walk_restart")
        if bad >= 0:
            self._bad("illegal-transition",
                      f"step {step}: series/surrogate {i}: state "
                      f"{idx[bad]} is followed by {idx[bad + 1]}, which is "
                      f"neither its successor nor the successor of one of "
                      f"its twins {twins[idx[bad]]}")


MACHINE = C15()
