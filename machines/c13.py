"""C13 -- data windows select exactly the requested samples; anomalies sum
(history machine over set_window / set_global_window interleaved with every
derived-series read, against a boolean-mask model on the full arrays)."""
import numpy as np

from sim.machine import Machine, Result
from sim.seeds import Streams
from sim import compare as C
from models import graphs as G

READS = ("observable", "grid", "window", "phase_mean", "anomaly",
         "phase_indices", "indices_selected_phases",
         "anomaly_selected_months", "shuffled_anomaly")


def coords(g):
    """Coordinates exactly representable in float32 (multiples of 0.25/0.5),
    irregular, unordered in space."""
    r = G.rng_of(g["gseed"])
    n, T = g["n"], g["T"]
    if g.get("space") == "regular":
        # a rectangular lat x lon grid: several nodes share each parallel
        lats = sorted(r.sample(range(-240, 241, 20), min(4, max(2, n // 3))))
        lon0 = r.randrange(-600, 400, 20)
        lat, lon = [], []
        for i in range(n):
            lat.append(lats[i % len(lats)] * 0.25)
            lon.append((lon0 + 40 * (i // len(lats))) * 0.25)
    elif g.get("space") == "dense":
        # a dense station network: spacing 2**-12 degrees around one site
        # (still exact in float32)
        la0, lo0 = r.choice((52.0, -33.5, 7.25)), r.choice((13.0, 151.25))
        lat = [la0 + r.randrange(-40, 41) * 2.0 ** -12 for _ in range(n)]
        lon = [lo0 + r.randrange(-40, 41) * 2.0 ** -12 for _ in range(n)]
    elif g.get("space") == "decimal":
        # station coordinates as people write them: not representable in
        # single precision (the grid keeps float32, the model likewise)
        lat = [round(r.uniform(-80, 80), 2) for _ in range(n)]
        lon = [round(r.uniform(-170, 170), 2) for _ in range(n)]
    else:
        lat = [r.randrange(-320, 321) * 0.25 for _ in range(n)]
        lon = [r.randrange(-700, 701) * 0.25 for _ in range(n)]
    t0 = r.choice((0.0, 10.0, -3.5))
    if g["tstep"] == "hours":
        # "hours since 1800": large offsets, 6-hourly (exact in float32)
        ts = [1700000.0 + 6.0 * k for k in range(T)]
    elif g["tstep"] == "decimal":
        # decimal years, monthly
        y0 = r.choice((1948.0, 2001.0))
        ts = [y0 + k / 12.0 for k in range(T)]
    elif g["tstep"] == "irregular":
        t, ts = t0, []
        for _ in range(T):
            ts.append(t)
            t += r.choice((0.5, 1.0, 1.0, 2.5))
    else:
        ts = [t0 + k * 1.0 for k in range(T)]
    return np.array(ts), np.array(lat), np.array(lon)


class Model:
    def __init__(self, X, time, lat, lon, cycle, anomalies):
        self.X, self.time, self.lat, self.lon = X, time, lat, lon
        self.cycle, self.anomalies = cycle, anomalies
        self.tm = np.ones(len(time), bool)
        self.sm = np.ones(len(lat), bool)

    def masks(self, w):
        if w is None:
            return np.ones(len(self.time), bool), np.ones(len(self.lat), bool)
        # the grid stores single precision; a bound as the caller typed it
        # (52.38) denotes the sample it rounds to
        f = np.float32
        t32, la32, lo32 = f(self.time), f(self.lat), f(self.lon)
        if w["time_min"] == w["time_max"]:
            tm = np.ones(len(self.time), bool)
        else:
            tm = (t32 >= f(w["time_min"])) & (t32 <= f(w["time_max"]))
        if w["lat_min"] == w["lat_max"] and w["lon_min"] == w["lon_max"]:
            sm = np.ones(len(self.lat), bool)
        else:
            sm = ((la32 >= f(w["lat_min"])) & (la32 <= f(w["lat_max"])) &
                  (lo32 >= f(w["lon_min"])) & (lo32 <= f(w["lon_max"])))
        return tm, sm

    def view(self):
        return self.X[self.tm][:, self.sm]

    def phase_mean(self):
        Xw = self.view()
        c = self.cycle
        pm = np.full((c, Xw.shape[1]), np.nan)
        for i in range(c):
            rows = Xw[i::c]
            if rows.shape[0]:
                pm[i] = rows.sum(axis=0) / rows.shape[0]
        return pm

    def anomaly(self):
        Xw = self.view()
        if self.anomalies:
            return Xw
        pm = self.phase_mean()
        out = np.empty_like(Xw, dtype=float)
        for t in range(Xw.shape[0]):
            out[t] = Xw[t] - pm[t % self.cycle]
        return out

    def phase_indices(self):
        c = self.cycle
        years = int(self.tm.sum()) // c
        return np.array([[i + c * k for k in range(years)]
                         for i in range(c)], dtype=int).reshape(c, years)


class C13(Machine):
    pid = "C13"
    shadow_generic = True
    rule = ("run = Data/ClimateData on generated observable + irregular "
            "float32-exact coordinates + cycle + anomalies flag + 3..12 ops "
            "(set_window with bounds on/between samples, set_global_window, "
            "reads of every derived series). Non-trivial: >= 2 window "
            "changes with reads between them. Distinct: class/flag + op "
            "kinds + window shape classes.")
    probe_names = ("window_bound_on_sample", "time_axis_degenerate",
                   "space_axes_degenerate", "empty_selection_refused",
                   "global_restored_and_compared", "cycle_not_dividing",
                   "anomalies_flag_true", "window_shorter_than_cycle",
                   "read_after_two_windows", "large_time_offset",
                   "dense_station_network", "window_dict_reused",
                   "regular_grid", "loaded_from_file",
                   "view_edited_before_window_change",
                   "coordinates_not_float32_exact",
                   "grid_through_text_files",
                   "non_float64_observable")
    real_vs_stub = {"real": ["Data, ClimateData, GeoGrid (constructors, "
                             "Load and its NetCDF import code, set_window, "
                             "set_global_window, all derived series)"],
                    "stub": ["numpy global RNG re-seeded per run "
                             "(shuffled_anomaly)",
                             "the NetCDF reader (pyunicorn.core.data."
                             "Dataset) is an in-process stand-in serving the "
                             "run's samples: no HDF5 backend exists here"]}
    assumptions = [
        "coordinates are either generated exactly representable in float32 "
        "or (decimal stations / decimal years) compared as the grid stores "
        "them, in float32; window bounds are derived from the stored values "
        "and never fall within rounding distance of a sample they exclude",
        "windows with exactly one degenerate spatial axis are not generated "
        "(statement and docstring read differently there)",
        "a window selecting no sample or no node is a refused call "
        "(ValueError from GeoGrid), counted, not judged"]

    def lru_configs(self, tier):
        return ["default", "1", "off", "shadow"] if tier == "thorough" \
            else ["default", "shadow"]

    def budget(self, tier):
        if tier == "thorough":
            return {"wall": 540, "max_runs": 10 ** 9, "chunk": 40,
                    "task_cap": 300}
        return {"wall": 25, "max_runs": 10 ** 9, "chunk": 20, "task_cap": 120}

    def generate(self, seed, tier, idx, lru):
        S = Streams(seed, self.pid, tier, idx)
        a, o = S["args"], S["ops"]
        T = a.randrange(6, 49)
        n = a.randrange(2, 11)
        cls = a.choice(("ClimateData",) * 4 + ("Data",))
        g = {"T": T, "n": n, "gseed": a.randrange(10 ** 9),
             "tstep": a.choice(("regular", "regular", "irregular", "hours",
                                "decimal")),
             "space": a.choice(("wide", "wide", "regular", "regular",
                                "dense", "decimal"))}
        cfg = {"lru": lru, "class": cls,
               "cycle": a.choice((1, 2, 3, 4, 5, 7, 12, 12, 13)),
               "anomalies": a.random() < 0.3, "xseed": a.randrange(10 ** 9),
               "init_window": a.random() < 0.2}
        # where the samples come from: arrays handed to the constructor (in
        # the caller's dtype), or a data file served by the in-process
        # stand-in for the NetCDF reader (regular lat x lon grid or station
        # list, with or without a level axis, latitudes in any order)
        cfg["dtype"] = a.choice(("float64",) * 5 + ("float32", "int64",
                                                     "int16", "uint8"))
        cfg["source"] = a.choice(("arrays", "arrays", "arrays", "file",
                                  "grid_txt"))
        cfg["file"] = {"type": a.choice(("NetCDF", "NetCDF", "iNetCDF")),
                       "levels": a.choice((0, 0, 2, 3)),
                       "level": a.choice((None, 0, 1)),
                       "lat_order": a.choice(("asc", "desc", "desc",
                                              "shuffled")),
                       "lon_order": a.choice(("asc", "asc", "shuffled")),
                       "n_lat": a.randrange(2, 5), "n_lon": a.randrange(2, 5),
                       "names": a.random() < 0.3}
        ops = []
        if cfg["init_window"]:
            cfg["window0"] = self._window(a)
        for _ in range(o.randrange(3, 13)):
            c = o.random()
            if c < 0.35:
                # the caller may keep one window dictionary, edit it in place
                # and pass the same object again
                ops.append({"op": "set_window", "w": self._window(o),
                            "alias": o.random() < 0.4,
                            "scribble": o.random() < 0.25})
            elif c < 0.5:
                ops.append({"op": "set_global_window",
                            "scribble": o.random() < 0.25})
            else:
                k = o.randrange(1, 5)
                names = sorted(o.sample(READS, k))
                ops.append({"op": "read", "names": names,
                            "phases": sorted(o.sample(range(cfg["cycle"]),
                                             min(cfg["cycle"],
                                                 o.randrange(1, 4))))})
        return {"property": self.pid, "seed": seed, "run": idx,
                "config": cfg, "grid": g, "ops": ops}

    @staticmethod
    def _window(r):
        """Symbolic window, resolved against the coordinates at run time."""
        def axis():
            return {"i": r.randrange(10 ** 6), "j": r.randrange(10 ** 6),
                    "di": r.choice((0.0, 0.0, -0.125, 0.125)),
                    "dj": r.choice((0.0, 0.0, -0.125, 0.125))}
        w = {"time": axis(), "lat": axis(), "lon": axis(),
             "time_deg": r.random() < 0.2, "space_deg": r.random() < 0.2,
             "wide_space": r.random() < 0.5}
        return w

    @staticmethod
    def _resolve(w, time, lat, lon, R, typed=None):
        """typed: the coordinates as the caller wrote them (double
        precision), used for bounds that sit on a sample."""
        typed = typed or (time, lat, lon)
        tval = {id(time): typed[0], id(lat): typed[1], id(lon): typed[2]}

        def rng(ax, vals, wide=False):
            # offsets of +-1/8 on wide axes, +-2**-13 on a dense network
            span = float(np.max(vals) - np.min(vals))
            u = 1.0 if span > 0.5 or len(vals) < 2 else 2.0 ** -10
            tv = tval[id(vals)]
            # on a sample: the value as typed, otherwise an offset from the
            # stored value
            a = float(tv[ax["i"] % len(vals)]) if ax["di"] == 0.0 else \
                vals[ax["i"] % len(vals)] + ax["di"] * u
            b = float(tv[ax["j"] % len(vals)]) if ax["dj"] == 0.0 else \
                vals[ax["j"] % len(vals)] + ax["dj"] * u
            lo, hi = (a, b) if a <= b else (b, a)
            if wide:
                lo, hi = min(lo, float(np.median(vals)) - 40 * u), \
                    max(hi, float(np.median(vals)) + 40 * u)
            if lo == hi:
                hi = lo + 0.125 * u      # keep the axis non-degenerate
            # a bound is either exactly a stored sample or well away from
            # every sample (decimal coordinates can put "median - 40" within
            # single-precision rounding of a station)
            def near(b):
                return [v for v in vals if 0 < abs(v - b) < 1e-3 * u
                        and np.float32(v) != np.float32(b)]
            for _ in range(4):
                if not near(lo):
                    break
                lo -= 0.03125 * u
            for _ in range(4):
                if not near(hi):
                    break
                hi += 0.03125 * u
            if ax["di"] == 0.0 or ax["dj"] == 0.0:
                R.probe("window_bound_on_sample")
            return float(lo), float(hi)
        out = {}
        if w["time_deg"]:
            out["time_min"] = out["time_max"] = float(
                time[w["time"]["i"] % len(time)])
            R.probe("time_axis_degenerate")
        else:
            out["time_min"], out["time_max"] = rng(w["time"], time)
        if w["space_deg"]:
            v = float(lat[w["lat"]["i"] % len(lat)])
            u = float(lon[w["lon"]["i"] % len(lon)])
            out.update(lat_min=v, lat_max=v, lon_min=u, lon_max=u)
            R.probe("space_axes_degenerate")
        else:
            out["lat_min"], out["lat_max"] = rng(w["lat"], lat,
                                                 w["wide_space"])
            out["lon_min"], out["lon_max"] = rng(w["lon"], lon,
                                                 w["wide_space"])
        return out

    # ------------------------------------------------------------------
    def execute(self, run):
        from pyunicorn.core.geo_grid import GeoGrid
        from pyunicorn.core.data import Data
        from pyunicorn.climate.climate_data import ClimateData
        R = Result()
        cfg, g = run["config"], run["grid"]
        np.random.seed((run["seed"] * 7919 + run["run"]) % (2 ** 31))
        time, lat, lon = coords(g)
        src, fl = cfg.get("source", "arrays"), cfg.get("file", {})
        if src == "file" and fl["type"] == "NetCDF":
            # rectangular grid: node k is (lat_grid[k // n_lon],
            # lon_grid[k % n_lon]) -- the order the file stores the samples
            r = G.rng_of(g["gseed"] + 1)
            lat_grid = np.array(sorted(r.sample(range(-320, 321, 10),
                                                fl["n_lat"]))) * 0.25
            lon_grid = np.array(sorted(r.sample(range(-700, 701, 10),
                                                fl["n_lon"]))) * 0.25
            if fl["lat_order"] == "desc":
                lat_grid = lat_grid[::-1].copy()
            elif fl["lat_order"] == "shuffled":
                r.shuffle(lat_grid)
            if fl["lon_order"] == "shuffled":
                r.shuffle(lon_grid)
            lat = np.repeat(lat_grid, len(lon_grid))
            lon = np.tile(lon_grid, len(lat_grid))
        n_nodes = len(lat)
        X = G.series(g["T"], n_nodes, cfg["xseed"], distinct=False)
        dt = cfg.get("dtype", "float64") if src == "arrays" else "float32"
        if dt.startswith(("int", "uint")):
            X = np.round(X * 20)
            if dt == "uint8":
                X = np.clip(X + 100, 0, 255)
        X = X.astype(dt)
        R.covered("input", f"{src}:{fl.get('type') if src == 'file' else dt}")
        self.tol = (2e-5, 2e-5) if dt == "float32" else (1e-10, 1e-12)
        grid = GeoGrid(time_seq=time.copy(), lat_seq=lat.copy(),
                       lon_seq=lon.copy(), silence_level=2)
        if src == "grid_txt":
            # the grid went through its text files before the data object
            # was built
            import os
            import shutil
            base = os.path.join(os.environ.get(
                "VERIF_SCRATCH", "/var/tmp/pyunicorn-verif"),
                f"run-{os.getpid()}-c13")
            shutil.rmtree(base, ignore_errors=True)
            os.makedirs(base)
            try:
                grid.save_txt(os.path.join(base, "grid"))
                grid = GeoGrid.LoadTXT(os.path.join(base, "grid"))
                grid.silence_level = 2
            finally:
                shutil.rmtree(base, ignore_errors=True)
            R.probe("grid_through_text_files")
            src = "arrays"
        cls = cfg["class"]
        model = Model(X.astype(float), time.astype(np.float32).astype(float),
                      lat.astype(np.float32).astype(float),
                      lon.astype(np.float32).astype(float),
                      cfg["cycle"], cfg["anomalies"] and cls == "ClimateData"
                      and src == "arrays")
        w0 = None
        held = {}                  # the caller's own window dictionary
        if cfg["init_window"]:
            w0 = self._resolve(cfg["window0"], model.time, model.lat,
                               model.lon, R, (time, lat, lon))
            tm, sm = model.masks(w0)
            if not tm.any() or not sm.any():
                w0 = None
            else:
                held.update(w0)
                w0 = held          # the constructor gets that object
        self.cls = cls
        if src == "file":
            R.probe("loaded_from_file")
            obj = C.call(self._load, cls, cfg, fl, X, time, lat, lon, w0)
        elif cls == "Data":
            obj = C.call(lambda: Data(observable=X.copy(), grid=grid,
                                      window=w0, silence_level=2))
        else:
            obj = C.call(lambda: ClimateData(
                observable=X.copy(), grid=grid, time_cycle=cfg["cycle"],
                anomalies=cfg["anomalies"], window=w0, silence_level=2))
            if cfg["anomalies"]:
                R.probe("anomalies_flag_true")
        if dt != "float64" and src == "arrays":
            R.probe("non_float64_observable")
        if isinstance(obj, C.Raised):
            # the model says the initial window is non-empty
            self._bad(R, "constructor-raises", "init",
                      f"constructor with window {w0} raised {obj!r}")
            R.opsig = C.digest_of(repr((cls, "ctor-raised")))
            return R.as_dict()
        if w0 is not None:
            model.tm, model.sm = model.masks(w0)
        if g["tstep"] == "hours":
            R.probe("large_time_offset")
        if g.get("space") == "dense":
            R.probe("dense_station_network")
        if g.get("space") == "regular":
            R.probe("regular_grid")
        if "decimal" in (g.get("space"), g["tstep"]):
            R.probe("coordinates_not_float32_exact")
        if g["T"] % cfg["cycle"]:
            R.probe("cycle_not_dividing")
        self.cls = cls
        sig = [cls, cfg["anomalies"]]
        first_global = {}          # read name -> value seen on global view
        changes = 0
        last = "init"
        reads_since = 0
        for step, op in enumerate(run["ops"]):
            R.steps += 1
            k = op["op"]
            if op.get("scribble"):
                # the caller has worked in place on the view it was given
                # (e.g. Data.normalize_time_series_array(view), documented as
                # in-place) and now moves on to another window: the samples
                # behind later views are the original ones
                v = C.call(obj.observable)
                if isinstance(v, np.ndarray) and v.size:
                    v[...] = 77          # valid in every dtype
                    R.probe("view_edited_before_window_change")
            if k == "set_window":
                w = self._resolve(op["w"], model.time, model.lat, model.lon,
                                  R, (time, lat, lon))
                tm, sm = model.masks(w)
                if op.get("alias"):
                    held.clear()
                    held.update(w)           # same object, new content
                    R.probe("window_dict_reused")
                    out = C.call(obj.set_window, held)
                else:
                    out = C.call(obj.set_window, dict(w))
                sig.append(("w", bool(op["w"]["time_deg"]),
                            bool(op["w"]["space_deg"])))
                if not tm.any() or not sm.any():
                    # refused call (the GeoGrid constructor raises on an
                    # empty axis): not a state change; object retired
                    R.probe("empty_selection_refused")
                    R.undefined += 1
                    R.trace.append(("refused", repr(out)[:40]))
                    break
                if isinstance(out, C.Raised):
                    self._bad(R, "set_window-raises", last, f"step {step}: "
                              f"set_window({w}) raised {out!r}")
                    break
                model.tm, model.sm = tm, sm
                changes += 1
                last = "set_window"
            elif k == "set_global_window":
                out = C.call(obj.set_global_window)
                if isinstance(out, C.Raised):
                    self._bad(R, "set_global_window-raises", last,
                              f"raised {out!r}")
                    break
                model.tm[:] = True
                model.sm[:] = True
                changes += 1
                last = "set_global_window"
                sig.append("g")
            else:
                sig.append(("r",) + tuple(op["names"]))
                if changes >= 2:
                    R.nontrivial = True
                    R.probe("read_after_two_windows")
                for name in op["names"]:
                    if cls == "Data" and name not in ("observable", "grid",
                                                      "window"):
                        continue
                    self._read(R, obj, model, name, op, last, first_global,
                               step)
                continue
            # structural invariant after every state change
            self._read(R, obj, model, "observable", op, last, first_global,
                       step)
            self._read(R, obj, model, "grid", op, last, first_global, step)
        R.opsig = C.digest_of(repr(sig))
        return R.as_dict()

    @staticmethod
    def _load(cls, cfg, fl, X, time, lat, lon, w0):
        """Data.Load / ClimateData.Load with the NetCDF reader replaced by an
        in-process stand-in (netCDF4 legacy interface) that serves the run's
        samples: the storage seam of the data classes."""
        import pyunicorn.core.data as data_module
        from pyunicorn.core.data import Data
        from pyunicorn.climate.climate_data import ClimateData

        class Variable:
            def __init__(self, values, **attrs):
                self._v = np.asarray(values)
                self.__dict__.update(attrs)

            def __getitem__(self, key):
                return self._v[key].copy()

            def __len__(self):
                return len(self._v)

        names = {"lat": "latitude", "lon": "longitude", "time": "t"} \
            if fl["names"] else {"lat": "lat", "lon": "lon", "time": "time"}
        L = fl["levels"]
        level = fl["level"] if L else None
        if level is not None and level >= max(L, 1):
            level = 0
        shape = (len(time),) + ((fl["n_lat"], fl["n_lon"])
                                if fl["type"] == "NetCDF" else (len(lat),))
        base = X.astype("float64").reshape(shape)
        if L:
            # level l holds the samples shifted by 16 (l - level): only the
            # requested level equals the model
            want = level or 0
            stored = np.stack([base + 16.0 * (l_ - want) for l_ in range(L)],
                              axis=1)
        else:
            stored = base
        variables = {names["time"]: Variable(time),
                     "obs": Variable(stored, long_name="generated")}
        if fl["type"] == "NetCDF":
            variables[names["lat"]] = Variable(lat[::fl["n_lon"]])
            variables[names["lon"]] = Variable(lon[:fl["n_lon"]])
        else:
            variables["grid_center_lat"] = Variable(lat)
            variables["grid_center_lon"] = Variable(lon)

        class Dataset:
            def __init__(self, name, mode="r"):
                self.variables = variables

            def ncattrs(self):
                return []

            def close(self):
                pass
        old = data_module.Dataset
        data_module.Dataset = Dataset
        try:
            kw = dict(dimension_names=names if fl["names"] else None,
                      window=w0, vertical_level=level, silence_level=2)
            if cls == "Data":
                return Data.Load("run.nc", "obs", fl["type"], **kw)
            return ClimateData.Load("run.nc", "obs", fl["type"],
                                    time_cycle=cfg["cycle"], **kw)
        finally:
            data_module.Dataset = old

    def _bad(self, R, inv, last, detail):
        R.violate(f"{self.pid}|{self.cls}|{inv}|{last}", detail,
                  victim=f"{self.cls}|{inv}")

    def _read(self, R, obj, m, name, op, last, first_global, step):
        Xw = m.view()
        c = m.cycle
        is_global = bool(m.tm.all() and m.sm.all())

        def cmp(tag, got, want, tol="tight"):
            ok, why = C.same(got, want, tol)
            R.trace.append((tag, C.digest_of(
                got if isinstance(got, C.Raised) else np.round(
                    np.asarray(got, dtype=float), 9))))
            if not ok:
                self._bad(R, tag, last, f"step {step}: {tag} after {last}: "
                                        f"{why}")
            return ok
        if name == "observable":
            cmp("observable", C.call(obj.observable), Xw, "exact")
        elif name == "grid":
            gr = C.call(lambda: obj.grid.grid())
            if isinstance(gr, C.Raised):
                self._bad(R, "grid", last, f"grid() raised {gr!r}")
                return
            cmp("grid-time", gr["time"], m.time[m.tm], "exact")
            cmp("grid-lat", gr["lat"], m.lat[m.sm], "exact")
            cmp("grid-lon", gr["lon"], m.lon[m.sm], "exact")
            sz = obj.grid.grid_size()
            if (sz["time"], sz["space"]) != Xw.shape or obj.grid.N != \
                    Xw.shape[1]:
                self._bad(R, "grid-shape", last,
                          f"grid_size {sz} / N {obj.grid.N} vs observable "
                          f"{Xw.shape}")
        elif name == "window":
            wd = C.call(obj.window)
            want = {"time_min": m.time[m.tm].min(),
                    "time_max": m.time[m.tm].max(),
                    "lat_min": m.lat[m.sm].min(), "lat_max": m.lat[m.sm].max(),
                    "lon_min": m.lon[m.sm].min(),
                    "lon_max": m.lon[m.sm].max()}
            if isinstance(wd, C.Raised) or any(
                    float(wd[k_]) != float(v) for k_, v in want.items()):
                self._bad(R, "window-report", last,
                          f"window() = {wd} expected {want}")
        elif name == "phase_mean":
            if Xw.shape[0] < c:
                R.probe("window_shorter_than_cycle")
            got = C.call(obj.phase_mean)
            cmp("phase_mean", got, m.phase_mean(), self.tol)
        elif name == "anomaly":
            got = C.call(obj.anomaly)
            if cmp("anomaly", got, m.anomaly(), self.tol) and \
                    not m.anomalies and not isinstance(got, C.Raised):
                got = np.asarray(got)
                scale = max(1.0, float(np.max(np.abs(Xw)))) if Xw.size else 1
                for i in range(min(c, Xw.shape[0])):
                    mu = got[i::c].mean(axis=0)
                    if np.any(np.abs(mu) > self.tol[0] * scale * 10):
                        self._bad(R, "anomaly-phase-mean-nonzero", last,
                                  f"phase {i}: mean {mu}")
                        break
                pm = C.call(obj.phase_mean)
                if not isinstance(pm, C.Raised) and np.shape(pm) == (
                        c, Xw.shape[1]):
                    back = np.array([got[t] + np.asarray(pm)[t % c]
                                     for t in range(Xw.shape[0])]
                                    ).reshape(Xw.shape)
                    if not np.allclose(back, Xw, rtol=self.tol[0],
                                       atol=self.tol[1]):
                        self._bad(R, "anomaly-plus-mean", last,
                                  "anomaly + phase mean != windowed "
                                  "observable")
        elif name == "phase_indices":
            cmp("phase_indices", C.call(obj.phase_indices),
                m.phase_indices(), "exact")
        elif name == "indices_selected_phases":
            ph = op["phases"]
            want = np.sort(m.phase_indices()[ph, :].flatten())
            cmp("indices_selected_phases",
                C.call(obj.indices_selected_phases, ph), want, "exact")
        elif name == "anomaly_selected_months":
            if c != 12:
                return
            ph = op["phases"]
            idx = np.sort(m.phase_indices()[ph, :].flatten())
            cmp("anomaly_selected_months",
                C.call(obj.anomaly_selected_months, ph), m.anomaly()[idx, :],
                self.tol)
        elif name == "shuffled_anomaly":
            got = C.call(obj.shuffled_anomaly)
            want = m.anomaly()
            if isinstance(got, C.Raised) or np.shape(got) != want.shape:
                self._bad(R, "shuffled_anomaly", last,
                          f"shape {np.shape(got)} vs {want.shape}: "
                          f"{C.short(got)}")
            elif not np.allclose(np.sort(np.asarray(got), axis=0),
                                 np.sort(want, axis=0), rtol=self.tol[0],
                                 atol=self.tol[1], equal_nan=True):
                self._bad(R, "shuffled_anomaly", last,
                          "columns are not permutations of the anomaly")
        # history invariant: the global view always reads the same
        if is_global and name in ("observable", "phase_mean", "anomaly",
                                  "phase_indices"):
            got = C.call(getattr(obj, name))
            if name in first_global:
                R.probe("global_restored_and_compared")
                ok, why = C.same(got, first_global[name], (1e-12, 0.0))
                # (the same computation on the same samples: tight in every
                # precision)
                if not ok:
                    self._bad(R, f"global-view-changed:{name}", last, why)
            elif not isinstance(got, C.Raised):
                first_global[name] = np.array(got, copy=True)


MACHINE = C13()
