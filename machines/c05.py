"""C05 -- all representations of a network agree, and survive save/load.

Representation machine: a reference network (dense A, w, link-attribute
matrices) is pushed through chains of constructor paths, copy, FromIGraph and
real save -> Load on a per-run scratch directory; a separate configuration
cuts writes short with RLIMIT_FSIZE (disk full / short write).
"""
import os
import random
import resource
import shutil
import signal

import numpy as np

from sim.machine import Machine, Result
from sim.seeds import Streams
from sim import compare as C
from models import graphs as G

FORMATS = ("graphml", "graphmlz", "pickle", "gml")
CLASSES = ("Network",) * 5 + ("GeoNetwork", "SpatialNetwork",
                              "ClimateNetwork")
OPS = ("from_dense", "from_sparse", "from_edge_list", "set_edge_list",
       "from_igraph", "copy", "save_load", "save_load", "save_load",
       "set_link_attribute", "node_weights")


def edges_of(A, directed, eseed=None):
    e = np.argwhere(A) if directed else np.argwhere(np.triu(A))
    if eseed is not None and len(e) > 0:
        rr = random.Random(eseed)
        e = [tuple(map(int, x)) for x in e]
        rr.shuffle(e)
        if not directed:
            e = [x if rr.random() < 0.5 else (x[1], x[0]) for x in e]
        e = np.array(e)
    return e


class Model:
    def __init__(self, A, directed, w, attrs):
        self.A = np.array(A, dtype=int)
        self.directed = directed
        self.w = None if w is None else np.array(w, dtype=float)
        self.attrs = {k: np.array(v, dtype=float) for k, v in attrs.items()}

    @property
    def n(self):
        return self.A.shape[0]

    def weights(self):
        return np.ones(self.n) if self.w is None else self.w


class C05(Machine):
    pid = "C05"
    rule = ("run = class + reference network (edge cases: no link, one "
            "link, isolated nodes incl. trailing ones, directed, N=2) + chain "
            "of 3..10 representation ops, each producing the next object "
            "from the previous one (dense, sparse formats, edge list, "
            "set_edge_list, FromIGraph, copy, save->Load in graphml / "
            "graphmlz / pickle / gml, set_link_attribute, node_weights=); "
            "one configuration in five cuts writes with RLIMIT_FSIZE. "
            "Non-trivial: >= 1 save->Load pair and >= 1 constructor path "
            "other than dense. Distinct: class + op/format sequence.")
    probe_names = ("save_load_pair", "edgeless", "single_link",
                   "trailing_isolated_node", "directed",
                   "link_attributes_present", "write_cut_fired",
                   "write_cut_acknowledged", "write_cut_raised",
                   "load_of_cut_file_raised", "format_chain",
                   "sparse_with_stored_zeros",
                   "source_perturbed_after_derivation",
                   "returned_arrays_edited_by_caller",
                   "edge_list_unsorted",
                   "attribute_matrix_not_c_contiguous",
                   "input_matrix_cleared_after_derivation",
                   "igraph_edges_unsorted")
    faults_na = ("message_loss", "message_duplication", "partition",
                 "process_crash", "clock_skew", "bit_flips_after_save")
    real_vs_stub = {"real": ["Network/SpatialNetwork/GeoNetwork/"
                             "ClimateNetwork constructors, copy, FromIGraph, "
                             "save, Load; igraph's writers and readers; "
                             "pickle; the kernel's file system on a per-run "
                             "scratch directory; RLIMIT_FSIZE write cuts"],
                    "stub": []}
    assumptions = [
        "write-fault configuration: only 'save returned normally and Load "
        "returned normally => loaded network equals the model' is judged",
        "files are not corrupted after a successful save (no format carries "
        "a checksum)",
        "an edge list without n_nodes is only generated when the last node "
        "has a link (the documented convention)",
        "text formats are compared at 1e-12 relative, pickle exactly"]

    def budget(self, tier):
        if tier == "thorough":
            return {"wall": 540, "max_runs": 10 ** 9, "chunk": 20,
                    "task_cap": 300}
        return {"wall": 35, "max_runs": 10 ** 9, "chunk": 10, "task_cap": 150}

    # ------------------------------------------------------------ generation
    def generate(self, seed, tier, idx, lru):
        S = Streams(seed, self.pid, tier, idx)
        a, o, f = S["args"], S["ops"], S["faults"]
        n = a.choice((2, 3, 4, 5, 6, 8, 10, 12))
        cls = a.choice(CLASSES)
        shape = a.choice(("random",) * 5 + ("edgeless", "single",
                                            "trailing_isolated", "full"))
        directed = a.random() < 0.3 and cls != "ClimateNetwork"
        g = {"n": n, "shape": shape, "p": a.choice((0.2, 0.5, 0.8)),
             "gseed": a.randrange(10 ** 9), "directed": directed,
             "weights": a.choice((None, a.randrange(10 ** 9))),
             "attrs": {nm: a.randrange(10 ** 9)
                       for nm in a.choice(((), ("w",), ("w", "w2"),
                                           ("w", "link_w")))}}
        fault = (idx % 5 == 4)
        ops = []
        for _ in range(o.randrange(3, 11)):
            k = o.choice(OPS)
            op = {"op": k}
            if k == "from_sparse":
                op["fmt"] = o.choice(("csc", "csr", "coo", "lil"))
                op["stored_zeros"] = o.random() < 0.4
                # the caller's matrix may already have the dtype the class
                # stores
                op["dtype"] = o.choice((None, None, "int8", "int16", "int32",
                                        "int64", "float64", "bool"))
            elif k in ("from_edge_list", "set_edge_list"):
                op["with_n"] = o.random() < 0.6
                # links listed in any order and, if undirected, either way
                # round
                op["eseed"] = o.choice((None, o.randrange(10 ** 9)))
            elif k == "save_load":
                op["fmt"] = o.choice(FORMATS)
                if fault:
                    op["cut"] = f.choice((0, 1, 10, 60, 200, 500, 1500, 4000))
            elif k == "from_igraph":
                op["eseed"] = o.choice((None, o.randrange(10 ** 9)))
            elif k == "set_link_attribute":
                op["name"] = o.choice(("w", "w2", "link_w"))
                op["s"] = o.randrange(10 ** 9)
            elif k == "node_weights":
                op["s"] = o.choice((None, o.randrange(10 ** 9)))
            ops.append(op)
        return {"property": self.pid, "seed": seed, "run": idx,
                "config": {"lru": lru, "class": cls, "faults": fault},
                "graph": g, "ops": ops}

    @staticmethod
    def _make_A(g):
        n, d = g["n"], g["directed"]
        if g["shape"] == "edgeless":
            return np.zeros((n, n), dtype=int)
        if g["shape"] == "single":
            A = np.zeros((n, n), dtype=int)
            A[0, n - 1] = 1
            if not d:
                A[n - 1, 0] = 1
            return A
        if g["shape"] == "full":
            return (1 - np.eye(n, dtype=int))
        A = np.array(G.gnp(n, g["p"], g["gseed"], d), dtype=int)
        if g["shape"] == "trailing_isolated":
            A[n - 1, :] = 0
            A[:, n - 1] = 0
        return A

    # ------------------------------------------------------------ execution
    def execute(self, run):
        import scipy.sparse as sp
        import igraph
        from pyunicorn.core.network import Network
        R = Result()
        self._R = R
        cfg, g = run["config"], run["graph"]
        self.cls = cls = cfg["class"]
        n, directed = g["n"], g["directed"]
        A = self._make_A(g)
        w = None if g["weights"] is None else G.weights(n, g["weights"])

        def attr_matrix(s):
            W = G.matrix(n, s) if directed else G.sym_matrix(n, s)
            # the caller's matrix in any memory layout: C, Fortran, or a
            # transposed view
            lay = s % 3
            if lay == 1:
                W = np.asfortranarray(W)
            elif lay == 2:
                W = np.ascontiguousarray(W.T).T
            if lay:
                R.probe("attribute_matrix_not_c_contiguous")
            return W
        m = Model(A, directed, w, {k: attr_matrix(s)
                                   for k, s in g["attrs"].items()})
        for k_, v in (("edgeless", A.sum() == 0),
                      ("single_link", A.sum() in (1, 2) and n > 2),
                      ("trailing_isolated_node",
                       A[n - 1].sum() + A[:, n - 1].sum() == 0 and A.sum()),
                      ("directed", directed),
                      ("link_attributes_present", bool(m.attrs))):
            if v:
                R.probe(k_)
        base = os.path.join(os.environ.get("VERIF_SCRATCH",
                                           "/var/tmp/pyunicorn-verif"),
                            f"run-{os.getpid()}")
        shutil.rmtree(base, ignore_errors=True)
        os.makedirs(base)
        self._extra = self._class_extra(cls, n, g)
        self.cur = cls
        try:
            net = C.call(self._build, m, "dense")
            sig = [cls, "dense"]
            if isinstance(net, C.Raised):
                self._bad(R, "constructor-raises", "dense",
                          f"constructor raised {net!r} on A with "
                          f"{int(A.sum())} entries, n={n}")
                R.opsig = C.digest_of(repr(sig))
                return R.as_dict()
            self._compare(R, net, m, "dense", exact=True)
            fmts = []
            other_path = False
            for step, op in enumerate(run["ops"]):
                R.steps += 1
                k = op["op"]
                self.cur = type(net).__name__    # class of the source object
                tag = k + (":" + op["fmt"] if "fmt" in op else "")
                sig.append(tag)
                exact = True
                if k == "set_link_attribute":
                    W = attr_matrix(op["s"])
                    out = C.call(net.set_link_attribute, op["name"], W)
                    if not isinstance(out, C.Raised):
                        m.attrs[op["name"]] = W
                    new = net
                elif k == "node_weights":
                    wv = None if op["s"] is None else G.weights(n, op["s"])
                    out = C.call(setattr, net, "node_weights", wv)
                    m.w = wv
                    new = net
                elif k == "set_edge_list":
                    e = edges_of(m.A, directed, op.get("eseed"))
                    if op.get("eseed") is not None:
                        R.probe("edge_list_unsorted")
                    if len(e) == 0 and not op["with_n"]:
                        continue
                    nn = n if (op["with_n"] or not self._last_linked(m.A)) \
                        else None
                    out = C.call(net.set_edge_list, e, nn)
                    new = net if not isinstance(out, C.Raised) else out
                    m.attrs = {}          # the embedded graph is rebuilt
                    other_path = True
                elif k == "save_load":
                    fmts.append(op["fmt"])
                    if len(fmts) >= 2:
                        R.probe("format_chain")
                    verdict = self._save_load(R, net, m, op, base, step)
                    if verdict is None:
                        continue        # relaxed oracle said nothing
                    new = verdict
                    exact = op["fmt"] == "pickle"
                    R.probe("save_load_pair")
                    if other_path:
                        R.nontrivial = True
                else:
                    new = C.call(self._derive, net, m, k, op, sp, igraph,
                                 Network)
                    if k != "from_dense":
                        other_path = True
                if isinstance(new, C.Raised):
                    self._bad(R, "raises", tag,
                              f"step {step}: {tag} raised {new!r} "
                              f"(links={int(m.A.sum())}, n={n})")
                    break
                self._compare(R, new, m, tag, exact=exact)
                R.trace.append((step, tag, C.digest_of(
                    np.asarray(new.sp_A.todense()))))
                if new is not net and not R.violations:
                    # the new object must not share state with its source:
                    # scale the source's weights in place, through the
                    # public property, and look at the new object again
                    self._clear_input()
                    out = C.call(self._scale_weights, net, dict(m.attrs))
                    if not isinstance(out, C.Raised):
                        R.probe("source_perturbed_after_derivation")
                        self._compare(R, new, m, tag + "+source-changed",
                                      exact=exact)
                if not R.violations and step % 2 == 0:
                    # arrays handed out by the getters belong to the caller
                    out = C.call(self._scribble, new, sorted(m.attrs))
                    if not isinstance(out, C.Raised):
                        R.probe("returned_arrays_edited_by_caller")
                        self._compare(R, new, m, tag + "+result-edited",
                                      exact=exact)
                # the chain continues from the new object only if it is
                # faithful (otherwise later steps would blame the wrong op)
                if R.violations:
                    break
                net = new
            R.opsig = C.digest_of(repr(sig))
        finally:
            shutil.rmtree(base, ignore_errors=True)
        return R.as_dict()

    @staticmethod
    def _scale_weights(net, attrs=None):
        w = net.node_weights
        w *= 2.0                      # in place on the array the getter gave
        net.node_weights = w
        # ... and its link attributes, through the public setter (a shared
        # embedded graph would carry them over)
        for name, W in sorted((attrs or {}).items()):
            net.set_link_attribute(name, 3.0 * W)

    def _clear_input(self):
        """The caller re-uses the matrix it built the network from."""
        S = getattr(self, "_input", None)
        self._input = None
        if S is None:
            return
        self._R.probe("input_matrix_cleared_after_derivation")
        if isinstance(S, np.ndarray):
            S[...] = 0
        elif hasattr(S, "data") and isinstance(S.data, np.ndarray) and \
                S.data.dtype != object:
            S.data[...] = 0
        else:
            S[:, :] = 0

    @staticmethod
    def _scribble(net, names):
        """The caller works in place on what the getters returned."""
        a = net.adjacency
        a += 7
        for name in names:
            W = net.link_attribute(name)
            W *= -1.5

    @staticmethod
    def _last_linked(A):
        n = A.shape[0]
        return bool(A[n - 1].sum() + A[:, n - 1].sum())

    def _class_extra(self, cls, n, g):
        if cls == "Network":
            return {}
        from registry.specs import _geo_grid, plain_grid
        if cls == "SpatialNetwork":
            return {"grid": plain_grid({"n": n, "s": g["gseed"]})}
        return {"grid": _geo_grid({"n": n, "s": g["gseed"]})}

    def _build(self, m, how, A=None):
        """Constructor of the run's class from an adjacency-like input."""
        from pyunicorn.core.network import Network
        A = m.A if A is None else A
        if self.cls == "Network":
            net = Network(adjacency=A, directed=m.directed,
                          node_weights=m.w, silence_level=3)
        elif self.cls == "SpatialNetwork":
            from pyunicorn.core.spatial_network import SpatialNetwork
            net = SpatialNetwork(grid=self._extra["grid"], adjacency=A,
                                 directed=m.directed, silence_level=3)
            net.node_weights = m.w
        elif self.cls == "GeoNetwork":
            from pyunicorn.core.geo_network import GeoNetwork
            net = GeoNetwork(grid=self._extra["grid"], adjacency=A,
                             directed=m.directed, node_weight_type=None,
                             silence_level=3)
            net.node_weights = m.w
        else:
            from pyunicorn.climate.climate_network import ClimateNetwork
            # a similarity whose thresholding gives exactly A
            S = np.where(np.asarray(A.todense() if hasattr(A, "todense")
                                    else A) > 0, 0.9, 0.1)
            np.fill_diagonal(S, 1.0)
            net = ClimateNetwork(grid=self._extra["grid"],
                                 similarity_measure=S, threshold=0.5,
                                 directed=m.directed, node_weight_type=None,
                                 silence_level=3)
            net.node_weights = m.w
        for name in sorted(m.attrs):
            net.set_link_attribute(name, m.attrs[name])
        return net

    def _derive(self, net, m, k, op, sp, igraph, Network):
        """Next object from the previous one's public representation."""
        self._input = None
        if k == "from_dense":
            self._input = np.array(net.adjacency)
            return self._build(m, k, self._input)
        if k == "from_sparse":
            conv = {"csc": sp.csc_matrix, "csr": sp.csr_matrix,
                    "coo": sp.coo_matrix, "lil": sp.lil_matrix}[op["fmt"]]
            Ad = np.array(net.adjacency)
            if op.get("stored_zeros") and op["fmt"] in ("csc", "csr", "coo"):
                # a sparse matrix that stores some explicit zeros (a link
                # removed by assigning 0, thresholded stored values)
                nn = Ad.shape[0]
                rows, cols = np.nonzero(1 - np.eye(nn, dtype=int))
                S = sp.coo_matrix((Ad[rows, cols], (rows, cols)),
                                  shape=(nn, nn)).asformat(op["fmt"])
                if S.nnz > Ad.sum():
                    self._R.probe("sparse_with_stored_zeros")
            else:
                S = conv(Ad)
            if op.get("dtype"):
                S = S.astype(op["dtype"])
            self._input = S               # the caller keeps its matrix
            return self._build(m, k, S)
        if k == "from_edge_list":
            e = edges_of(np.array(net.adjacency), m.directed,
                         op.get("eseed"))
            if op.get("eseed") is not None:
                self._R.probe("edge_list_unsorted")
            if len(e) == 0:
                # an edge list cannot describe an edgeless graph's size
                return self._build(m, k)
            nn = m.n if (op["with_n"] or not self._last_linked(m.A)) \
                else None
            new = Network(edge_list=e, n_nodes=nn, directed=m.directed,
                          node_weights=m.w, silence_level=3)
            for name in sorted(m.attrs):
                new.set_link_attribute(name, m.attrs[name])
            self._as_network = True
            return new
        if k == "from_igraph":
            e = edges_of(m.A, m.directed)
            if op.get("eseed") is not None and len(e) > 1:
                # an igraph object whose edges are in no particular order
                # (and, if undirected, in either orientation)
                rr = random.Random(op["eseed"])
                e = [tuple(x) for x in e]
                rr.shuffle(e)
                if not m.directed:
                    e = [x if rr.random() < 0.5 else (x[1], x[0])
                         for x in e]
                e = np.array(e)
                self._R.probe("igraph_edges_unsorted")
            gr = igraph.Graph(n=m.n, edges=[tuple(map(int, x)) for x in e],
                              directed=m.directed)
            if m.w is not None:
                gr.vs["node_weight_nsi"] = list(m.w)
            for name in sorted(m.attrs):
                gr.es[name] = [float(m.attrs[name][i, j]) for i, j in e]
            new = Network.FromIGraph(gr, silence_level=3)
            return new
        if k == "copy":
            return net.copy()
        raise KeyError(k)

    def _save_load(self, R, net, m, op, base, step):
        from pyunicorn.core.network import Network
        fmt = op["fmt"]
        ext = {"graphml": "graphml", "graphmlz": "graphmlz",
               "pickle": "pickle", "gml": "gml"}[fmt]
        fn = os.path.join(base, f"net{step}.{ext}")
        cls = type(net).__name__
        target, loader = fn, Network.Load
        if cls in ("SpatialNetwork", "GeoNetwork"):
            target = (fn, os.path.join(base, f"grid{step}.pkl"))
            loader = type(net).Load
        elif cls == "ClimateNetwork":
            target = (fn, os.path.join(base, f"grid{step}.pkl"),
                      os.path.join(base, f"sim{step}.npy"))
            loader = type(net).Load
        cut = op.get("cut")
        if cut is None:
            out = C.call(net.save, target, fmt)
            if isinstance(out, C.Raised):
                return out
            return C.call(loader, target, fmt, 3)
        # ---- write-fault configuration: RLIMIT_FSIZE cuts the write
        soft, hard = resource.getrlimit(resource.RLIMIT_FSIZE)
        old = signal.signal(signal.SIGXFSZ, signal.SIG_IGN)
        try:
            resource.setrlimit(resource.RLIMIT_FSIZE, (cut, hard))
            out = C.call(net.save, target, fmt)
        finally:
            resource.setrlimit(resource.RLIMIT_FSIZE, (soft, hard))
            signal.signal(signal.SIGXFSZ, old)
        sizes = [os.path.getsize(t) for t in (
            target if isinstance(target, tuple) else (target,))
            if os.path.exists(t)]
        fired = any(s_ >= cut for s_ in sizes) or isinstance(out, C.Raised)
        if fired:
            R.fault("write_cut", 1)
            R.probe("write_cut_fired")
        if isinstance(out, C.Raised):
            R.probe("write_cut_raised")
            return None               # an unacknowledged save: nothing claimed
        if fired:
            R.probe("write_cut_acknowledged")
        loaded = C.call(loader, target, fmt, 3)
        if isinstance(loaded, C.Raised):
            R.probe("load_of_cut_file_raised")
            return None
        return loaded                 # acknowledged + loadable => must match

    # ------------------------------------------------------------ oracle
    def _bad(self, R, field, tag, detail):
        cls = getattr(self, "cur", self.cls)
        R.violate(f"{self.pid}|{cls}|{tag}|{field}", detail,
                  victim=f"{cls}|{tag}|{field}")

    def _compare(self, R, net, m, tag, exact):
        tol = "exact" if exact else (1e-12, 0.0)
        n = m.n

        def chk(field, got, want, t=tol):
            ok, why = C.same(got, want, t)
            if not ok:
                self._bad(R, field, tag, f"after {tag}: {field} {why}")
        A = C.call(lambda: np.asarray(net.adjacency))
        if isinstance(A, C.Raised):
            self._bad(R, "adjacency", tag, f"adjacency raised {A!r}")
            return
        chk("N", net.N, n, "exact")
        chk("adjacency", A, m.A, "exact")
        chk("sp_A", np.asarray(net.sp_A.todense()), m.A, "exact")
        nz = int(m.A.sum())
        chk("n_links", net.n_links, nz if m.directed else nz // 2, "exact")
        if n > 1:
            chk("link_density", net.link_density, nz / (n * (n - 1)),
                (1e-12, 0.0))
        chk("directed", bool(net.directed), bool(m.directed), "exact")
        if not m.directed:
            if not np.array_equal(A, A.T):
                self._bad(R, "symmetry", tag, "undirected adjacency is not "
                                              "symmetric")
        if np.any(np.diag(A) != 0):
            self._bad(R, "diagonal", tag, "adjacency has self-loops")
        gr = net.graph
        chk("graph.vcount", gr.vcount(), n, "exact")
        chk("graph.directed", gr.is_directed(), m.directed, "exact")
        want_e = {tuple(map(int, e)) for e in edges_of(m.A, m.directed)}
        got_e = {tuple(e) if m.directed else tuple(sorted(e))
                 for e in gr.get_edgelist()}
        if got_e != want_e or gr.ecount() != len(want_e):
            self._bad(R, "graph.edges", tag,
                      f"embedded graph has {gr.ecount()} edges "
                      f"{sorted(got_e)[:6]}..., model {len(want_e)}")
        wts = m.weights()
        chk("node_weights", net.node_weights, wts)
        chk("total_node_weight", net.total_node_weight, float(wts.sum()),
            (1e-12, 0.0))
        chk("mean_node_weight", net.mean_node_weight, float(wts.mean()),
            (1e-12, 0.0))
        for name in sorted(m.attrs):
            got = C.call(net.link_attribute, name)
            want = m.attrs[name] * (m.A > 0)
            if isinstance(got, C.Raised):
                self._bad(R, f"link_attribute:{name}", tag,
                          f"after {tag}: link attribute '{name}' is gone "
                          f"({got!r})")
            else:
                chk(f"link_attribute:{name}", np.asarray(got) * (m.A > 0),
                    want)


MACHINE = C05()
