"""C06 -- queries are pure: no interference, inputs are never modified.

Query-order machine on long-lived and *shared* objects: seeded query
sequences (and the ordered-pair matrix on small inputs); oracle = the value of
each query on a fresh isolated object, byte snapshots of caller-owned arrays,
and the shared Data/Grid object's own answers.
"""
import math
import random
import shutil

import numpy as np

from sim.machine import Machine, Result
from sim.seeds import Streams, derive
from sim import compare as C
from sim import shadow
from machines.c01 import (queries_for, invoke, qkey, cwd, run_dirs, snap,
                          with_pos)

# randomised queries: run as perpetrators only (their own value is random)
RANDOMISED = {
    "Surrogates": [("white_noise_surrogates", {}),
                   ("correlated_noise_surrogates", {}),
                   ("AAFT_surrogates", {}),
                   ("refined_AAFT_surrogates", {"n_iterations": 2}),
                   ("refined_AAFT_surrogates", {"n_iterations": 2,
                                                "output": "true_spectrum"}),
                   # same threshold / min_dist as the twins() patterns, so
                   # that both meet in one memo entry
                   ("twin_surrogates", {"dimension": 2, "delay": 1,
                                        "threshold": 0.5, "min_dist": 1}),
                   ("original_distribution", {
                       "test_function": "@static:test_pearson_correlation",
                       "n_bins": 4}),
                   ("test_threshold_significance", {
                       "surrogate_function":
                           "@static:white_noise_surrogates",
                       "test_function": "@static:test_pearson_correlation",
                       "realizations": 2, "n_bins": 4})],
    "ClimateData": [("shuffled_anomaly", {})],
    "RecurrencePlot": [("resample_diagline_dist", {"M": 5}),
                       ("resample_vertline_dist", {"M": 5})],
    "RecurrenceNetwork": [("resample_diagline_dist", {"M": 5})],
}
TOPOLOGIES = ("single",) * 5 + ("shared_data", "shared_data", "shared_grid",
                                "same_array", "copy")
PAIR_CLASSES = ("Network", "InteractingNetworks", "GeoNetwork",
                "SpatialNetwork", "ResNetwork", "ClimateNetwork",
                "TsonisClimateNetwork", "SpearmanClimateNetwork",
                "MutualInfoClimateNetwork", "RecurrencePlot",
                "RecurrenceNetwork", "CrossRecurrencePlot",
                "JointRecurrencePlot", "JointRecurrenceNetwork",
                "VisibilityGraph", "Surrogates", "ClimateData", "GeoGrid",
                "Grid", "EventSeries", "PartialCorrelationClimateNetwork",
                "HavlinClimateNetwork", "HilbertClimateNetwork",
                "CoupledClimateNetwork", "EventSeriesClimateNetwork",
                "InterSystemRecurrenceNetwork", "CouplingAnalysis")


# derived networks: computed, briefly used and dropped -- perpetrators only
DERIVED = [("copy", {}), ("undirected_copy", {}), ("splitted_copy", {}),
           ("splitted_copy", {"node": 0, "proportion": 0.3}),
           ("permuted_copy", {"permutation": "@perm"}),
           ("subnetwork", {"nodes": "@half1"})]


def derived_for(spec):
    if spec.family != "network":
        return []
    cls = spec.cls()
    return [q for q in DERIVED if hasattr(cls, q[0])]


def all_queries(spec):
    return queries_for(spec) + RANDOMISED.get(spec.name, []) + \
        derived_for(spec)


def is_random(spec, name):
    """Perpetrator-only calls: randomised generators and derived networks."""
    return any(name == n for n, _ in RANDOMISED.get(spec.name, [])) or (
        spec.family == "network" and any(name == n for n, _ in DERIVED))


class C06(Machine):
    pid = "C06"
    run_wall_cap = 90.0
    rule = ("two layers: (a) ordered-pair sweep -- fresh object; qa; qb over "
            "the ordered pairs of query patterns of all classes, walked in a "
            "seed-dependent scattered order; (b) random sequences of <= 12 queries (then again in "
            "another order) on long-lived objects in five sharing topologies "
            "(single, two networks on one ClimateData, two networks on one "
            "GeoGrid, RecurrencePlot+Surrogates on one caller array, object "
            "and its copy()). Non-trivial: >= 2 distinct queries on one "
            "object, at least one returning an array. Distinct: class/"
            "topology + query pattern sequence.")
    probe_names = ("shared_data_topology", "shared_grid_topology",
                   "same_array_topology", "copy_topology",
                   "randomised_perpetrator", "caller_arrays_checked",
                   "shared_object_queries_checked", "both_raised",
                   "repeat_checked", "static_helper_called",
                   "derived_network_perpetrator")
    real_vs_stub = {"real": ["every memoising class: public constructors and "
                             "all discovered query patterns, the class-level "
                             "LRU with its capacity knob"],
                    "stub": ["numpy/stdlib RNG re-seeded per run for the "
                             "randomised queries (perpetrators only)"]}
    assumptions = [
        "victims are measures, derived arrays, summary attributes and "
        "caller-/shared-owned data; bookkeeping accessors are excluded",
        "documented-in-place methods: Data.normalize_time_series_array, "
        "RecurrencePlot.normalize_time_series, CouplingAnalysis."
        "symmetrize_by_absmax, Surrogates.normalize_original_data and the "
        "rewiring family (mutators) -- none of them is generated as a query",
        "ARPACK-based centralities are not judged (nondeterministic)"]

    def lru_configs(self, tier):
        if tier == "thorough":
            return ["default", "1", "inf", "off", "shadow"]
        return ["default", "1", "shadow"]

    def budget(self, tier):
        if tier == "thorough":
            return {"wall": 840, "max_runs": 10 ** 9, "chunk": 20,
                    "task_cap": 400}
        return {"wall": 50, "max_runs": 10 ** 9, "chunk": 20,
                "task_cap": 200}

    # ------------------------------------------------------------ generation
    def pair_classes(self, seed, tier):
        # every class in both tiers: the ordered-pair space is walked in a
        # seed-dependent scattered order (below), so whatever the budget
        # reaches is a uniform sample of it
        return list(PAIR_CLASSES)

    _np = {}

    def n_pairs(self, seed, tier):
        from registry.specs import BY_NAME
        key = (seed, tier)
        if key not in self._np:
            tab = []
            for c in self.pair_classes(seed, tier):
                qs = all_queries(BY_NAME[c])
                tab.append((c, len(qs)))
            self._np[key] = tab
        return self._np[key]

    def generate(self, seed, tier, idx, lru):
        from registry.specs import BY_NAME
        nconf = len(self.lru_configs(tier))
        S = Streams(seed, self.pid, tier, idx)
        a, o = S["args"], S["ops"]
        # interleave: even per-config counters -> sequences, odd -> pairs,
        # so both layers progress whatever the budget
        k = idx // nconf
        if k % 8 == 7:
            from registry.statics import STATICS
            labels = sorted(STATICS) + ["GeoGrid.region_indices"]
            return {"property": self.pid, "seed": seed, "run": idx,
                    "config": {"lru": lru, "layer": "static",
                               "topology": "static"},
                    "fn": labels[(k // 8) % len(labels)],
                    "aseed": a.randrange(10 ** 9), "builds": [], "ops": []}
        tab = self.n_pairs(seed, tier)
        total = sum(n * n for _, n in tab)
        if k % 2 == 1:
            j = (k // 2) * nconf + idx % nconf
            # a bijection of the pair space: stride coprime to its size,
            # seed-dependent offset (a fixed prefix of the enumeration would
            # be all that a bounded budget ever sees)
            step = next(q for q in (1000003, 999983, 1000033, 1000037,
                                    7919, 104729) if math.gcd(q, total) == 1)
            p = (j * step + derive(seed, "c06-pair-offset")) % total
            for cname, n in tab:
                if p < n * n:
                    break
                p -= n * n
            qs = all_queries(BY_NAME[cname])
            qa, qb = qs[p // n], qs[p % n]
            ms = derive(seed, "c06-model", cname, j // total)
            return {"property": self.pid, "seed": seed, "run": idx,
                    "config": {"lru": lru, "layer": "pair",
                               "topology": "single"},
                    "builds": [{"cls": cname, "ms": ms}],
                    "ops": [{"obj": 0, "name": qa[0],
                             "kw": with_pos(qa[1], a)},
                            {"obj": 0, "name": qb[0],
                             "kw": with_pos(qb[1], a)}]}
        topo = a.choice(TOPOLOGIES)
        ms = a.randrange(10 ** 9)
        if topo == "shared_data":
            cl = [a.choice(("TsonisClimateNetwork", "SpearmanClimateNetwork",
                            "MutualInfoClimateNetwork",
                            "HavlinClimateNetwork", "HilbertClimateNetwork",
                            "PartialCorrelationClimateNetwork"))
                  for _ in range(2)]
            builds = [{"cls": c, "ms": ms} for c in cl]
        elif topo == "shared_grid":
            builds = [{"cls": "GeoNetwork", "ms": ms},
                      {"cls": a.choice(("GeoNetwork", "ClimateNetwork")),
                       "ms": ms}]
        elif topo == "same_array":
            builds = [{"cls": "Surrogates", "ms": ms},
                      {"cls": "RecurrencePlot", "ms": ms, "from": 0}]
        elif topo == "copy":
            builds = [{"cls": a.choice(("Network", "InteractingNetworks")),
                       "ms": ms}, {"copy_of": 0}]
        else:
            builds = [{"cls": a.choice(PAIR_CLASSES), "ms": ms}]
        ops = []
        nb = len(builds)
        base_cls = [b.get("cls") or builds[b["copy_of"]]["cls"]
                    for b in builds]
        for _ in range(o.randrange(2, 13)):
            i = o.randrange(nb)
            qs = all_queries(BY_NAME[base_cls[i]])
            qn, kw = qs[o.randrange(len(qs))]
            if ops and "@attr" in ops[-1]["kw"].values() and \
                    o.random() < 0.4:
                # queries that take the same link attribute meet in the
                # same memoised weighted matrices: keep them together
                i = ops[-1]["obj"]
                qa_ = [q for q in all_queries(BY_NAME[base_cls[i]])
                       if "@attr" in q[1].values()]
                if qa_:
                    qn, kw = qa_[o.randrange(len(qa_))]
            ops.append({"obj": i, "name": qn, "kw": with_pos(kw, o)})
        again = list(ops)
        o.shuffle(again)
        ops = ops + again
        return {"property": self.pid, "seed": seed, "run": idx,
                "config": {"lru": lru, "layer": "seq", "topology": topo},
                "builds": builds, "ops": ops}

    # ------------------------------------------------------------ execution
    def execute(self, run):
        from registry import specs as SP
        R = Result()
        base, odir, tdir = run_dirs()
        np.random.seed(run["run"] % (2 ** 31))
        random.seed(run["run"])
        topo = run["config"]["topology"]
        if topo == "static":
            try:
                return self._static(run, R)
            finally:
                shutil.rmtree(base, ignore_errors=True)
        SP._capture = []
        SP._share = {} if topo in ("shared_data", "shared_grid") else None
        shadow.reset()
        try:
            return self._execute(run, R, SP, odir, tdir, topo)
        finally:
            shadow.reset()
            SP._capture = None
            SP._share = None
            shutil.rmtree(base, ignore_errors=True)

    def _execute(self, run, R, SP, odir, tdir, topo):
        objs = []
        for b in run["builds"]:
            if "copy_of" in b:
                src = objs[b["copy_of"]]
                with cwd(odir):
                    o = C.call(src["obj"].copy)
                cspec = SP.BY_NAME.get(type(o).__name__, src["spec"])
                objs.append({"spec": cspec, "model": src["model"],
                             "obj": o, "copy_of_spec": src["spec"]})
                continue
            spec = SP.BY_NAME[b["cls"]]
            model = spec.gen_model(random.Random(b["ms"]))
            if objs and topo in ("shared_data", "shared_grid"):
                model = SP.like(model, objs[0]["model"])
            with cwd(odir):
                if "from" in b:
                    # RecurrencePlot on (a row of) the array the Surrogates
                    # object was given
                    X = [c_[1] for c_ in SP._capture
                         if c_[0] == "surrogates-original-data"][-1]
                    mm = dict(model)
                    kw = spec.kw(mm)
                    o = C.call(lambda: spec.cls()(X[0], **kw))
                    model = dict(model, n=X.shape[1], _x=X[0].copy(), _kw=kw)
                else:
                    o = C.call(spec.build, model)
            objs.append({"spec": spec, "model": model, "obj": o})
        if any(isinstance(o["obj"], C.Raised) for o in objs):
            R.opsig = C.digest_of(repr(("build-raised", run["builds"])))
            R.undefined += 1
            return R.as_dict()
        tp = {"shared_data": "shared_data_topology",
              "shared_grid": "shared_grid_topology",
              "same_array": "same_array_topology",
              "copy": "copy_topology"}.get(topo)
        if tp:
            R.probe(tp)
        # caller-owned arrays and their byte snapshots
        held = [c_ for c_ in SP._capture if isinstance(c_[1], np.ndarray)]
        SP._capture = None
        # constructing the objects must leave the caller's arrays alone
        for hi, (k_, a, b, dt, sh) in enumerate(held):
            if a.tobytes() != b or a.dtype.str != dt or a.shape != sh:
                self._viol(R, objs[-1]["spec"], "constructor",
                           "caller-array", k_,
                           f"constructing {objs[-1]['spec'].name} changed "
                           f"the caller's '{k_}' array (dtype {dt}, shape "
                           f"{sh} -> {a.shape})")
                held[hi] = (k_, a, a.tobytes(), a.dtype.str, a.shape)
        # shared Data / Grid objects with reference answers from isolated
        # copies
        shared_objs = []
        if SP._share:
            share_items = sorted(SP._share.items())
            SP._share = None
            for key, so in share_items:
                sspec = SP.BY_NAME["GeoGrid" if key.startswith("geogrid")
                                   else "ClimateData"]
                shared_objs.append((key[:11], so, sspec,
                                    SP._share_makers[key]))
        SP._share = None
        SP._share_makers.clear()
        shared_ref = {}
        sig = [topo]
        def check_shared(step, spec, key, rotate):
            for sname, so, sspec, maker in shared_objs:
                sq = queries_for(sspec)
                picks = [sq[(step * 2 + j) % len(sq)] for j in range(2)] \
                    if rotate else sq
                for qn, qk in picks:
                    # call-site pattern rotates with the step
                    qk = dict(qk, **{"@pos": (step + 1) % 4,
                                     "@k": (step + 1) // 4})
                    rk = (sname, qkey(qn, qk))
                    smodel = {"n": so.N if sspec.name == "GeoGrid"
                              else so.grid.N}
                    if rk not in shared_ref:
                        with cwd(tdir), shadow.paused():
                            iso = maker()
                            shared_ref[rk] = snap(C.call(
                                invoke, iso, qn, qk, smodel))
                    with cwd(odir):
                        got = snap(C.call(invoke, so, qn, qk, smodel))
                    R.probe("shared_object_queries_checked")
                    ok, why = C.same(got, shared_ref[rk], "tight")
                    if not ok:
                        self._viol(
                            R, spec, key, "shared-object",
                            f"{sspec.name}.{rk[1]}",
                            f"step {step}: after {spec.name}.{key} the "
                            f"shared {sspec.name} answers {rk[1]} with "
                            f"{C.short(got)} instead of "
                            f"{C.short(shared_ref[rk])} ({why})")

        # constructing the networks must leave the shared object alone
        if shared_objs:
            check_shared(-1, objs[-1]["spec"], "constructor", rotate=False)
        seen_arr = False
        handed = []
        names_seen = set()
        ops = run["ops"]
        for step, op in enumerate(ops):
            R.steps += 1
            st = objs[op["obj"]]
            spec, model, obj = st["spec"], st["model"], st["obj"]
            name, kw = op["name"], op["kw"]
            if "copy_of_spec" in st and not name.startswith("attr:") and \
                    not hasattr(obj, name):
                continue          # copy() returned a plain Network
            key = qkey(name, kw)
            sig.append(f"{op['obj']}:{key}")
            rnd = is_random(spec, name)
            if rnd:
                R.probe("randomised_perpetrator")
                np.random.seed(step + 17)
                random.seed(step + 17)
            with cwd(odir):
                val = C.call(invoke, obj, name, kw, model)
                if rnd and hasattr(val, "adjacency"):
                    # a derived network is used a little and dropped
                    R.probe("derived_network_perpetrator")
                    for qn in ("degree", "path_lengths", "nsi_degree"):
                        C.call(getattr(val, qn))
                    # ... and changed: it is the caller's own object now,
                    # nothing of it may reach back into the original

                    def change(d):
                        d.node_weights = np.asarray(d.node_weights) * 2.0
                        for a_ in list(d.graph.es.attributes()):
                            d.set_link_attribute(
                                a_, 3.0 * d.link_attribute(a_))
                        d.set_link_attribute("zz", np.ones((d.N, d.N)))
                    C.call(change, val)
                    val = None
                val_s = snap(val)
                if not rnd:
                    val2 = C.call(invoke, obj, name, kw, model)
            for e in shadow.drain():
                # shadow configuration: a hit whose re-evaluation differs
                R.probe("shadow_mismatching_hit")
                self._viol(R, spec, key, f"memo-{e['kind']}", e["qual"],
                           f"step {step}: during {spec.name}.{key} the "
                           f"memoised {e['qual']}{e['args']} was served "
                           f"although re-evaluating it gives another value "
                           f"({e['why']}); {e['kind']}")
            names_seen.add(key)
            if isinstance(val, np.ndarray):
                seen_arr = True
            if len(names_seen) >= 2 and seen_arr:
                R.nontrivial = True
            R.trace.append((step, key, "rnd" if rnd else C.digest_of(val_s)))
            if not rnd:
                # (ii) repeating a deterministic query gives an equal value
                R.probe("repeat_checked")
                ok, why = C.same(val_s, val2, "tight")
                if not ok:
                    self._viol(R, spec, key, "repeat", key,
                               f"step {step}: {key} repeated immediately "
                               f"returns a different value: {why}")
                # (i) value equals the fresh isolated object's
                ref = self._ref(st, run, op, tdir, SP)
                if isinstance(val_s, C.Raised) and isinstance(ref, C.Raised) \
                        and val_s.type == ref.type:
                    R.probe("both_raised")
                elif isinstance(ref, C.Raised) and not isinstance(
                        val_s, C.Raised):
                    # the call only works once an earlier query has set
                    # something up (an embedding, a link attribute): the
                    # fresh object returns no value to compare with
                    R.probe("enabled_by_earlier_query")
                elif ref is not None:
                    ok, why = C.same(val_s, ref, "tight")
                    if not ok and not self._nondet(st, run, op, tdir, SP,
                                                   ref):
                        perp = self._perpetrator(st, run, ops[:step], op,
                                                 tdir, SP, ref)
                        self._viol(
                            R, spec, perp, "value", key,
                            f"step {step}: {spec.name}.{key} on the "
                            f"long-lived object returned {C.short(val_s)}; "
                            f"a fresh object returns {C.short(ref)} ({why}); "
                            f"perpetrator: {perp}")
            # (iii') arrays handed out by earlier queries are the caller's:
            # they keep the values they had when they were returned
            for (hk, hstep, arr, snap_) in handed:
                if arr.tobytes() != snap_:
                    self._viol(R, spec, key, "returned-array-overwritten",
                               hk, f"step {step}: the array that {hk} "
                                   f"returned at step {hstep} changed while "
                                   f"{spec.name}.{key} was evaluated")
            handed[:] = [h for h in handed if h[2].tobytes() == h[3]]
            if isinstance(val, np.ndarray) and val.size and not rnd:
                handed.append((key, step, val, val.tobytes()))
                del handed[:-8]
            # (iii) caller-owned arrays unchanged
            R.probe("caller_arrays_checked")
            for hi, (k_, a, b, dt, sh) in enumerate(held):
                if a.tobytes() != b or a.dtype.str != dt or a.shape != sh:
                    self._viol(R, spec, key, "caller-array", k_,
                               f"step {step}: {spec.name}.{key} changed the "
                               f"caller's '{k_}' array (shape {sh})")
                    # attribute the change to this step only
                    held[hi] = (k_, a, a.tobytes(), a.dtype.str, a.shape)
            # (iv) the shared object still answers as an isolated one
            check_shared(step, spec, key, rotate=True)
        if shadow.STATE["installed"]:
            h, nd = shadow.take_counts()
            R.probe("shadow_hits_reevaluated", h)
            if nd:
                R.probe("shadow_nondeterministic_method", nd)
        R.opsig = C.digest_of(repr(sig))
        return R.as_dict()

    def _static(self, run, R):
        """A public static helper (or method) called with caller-owned
        arrays as arguments."""
        from registry import statics as ST
        label = run["fn"]

        def build():
            r = random.Random(run["aseed"])
            if label == "GeoGrid.region_indices":
                return ST.geogrid_region_case(r) + (False, True)
            res, builder, inplace, det = ST.STATICS[label]
            args, kw = builder(r)
            return res(), args, kw, inplace, det
        f, args, kw, inplace, det = build()
        snaps = [(i, a.tobytes(), a.dtype.str, a.shape)
                 for i, a in enumerate(args) if isinstance(a, np.ndarray)]
        np.random.seed(7)
        random.seed(7)
        val = C.call(f, *args, **kw)
        val_s = snap(val)
        R.steps = 1
        R.probe("static_helper_called")
        if isinstance(val, C.Raised):
            R.probe("static_helper_raised")
        R.opsig = C.digest_of(repr((label, [(x[2], x[3]) for x in snaps],
                                    sorted(kw.items(), key=str))))
        R.nontrivial = bool(snaps)
        R.trace.append((label, "rnd" if not det else C.digest_of(val_s)))
        if not inplace:
            for i, b, dt, sh in snaps:
                a = args[i]
                if a.tobytes() != b or a.dtype.str != dt or a.shape != sh:
                    R.violate(f"{self.pid}|static|{label}|caller-arg:{i}",
                              f"{label} changed its argument {i} (dtype "
                              f"{dt}, shape {sh}, "
                              f"{'C' if a.flags.c_contiguous else 'F'}-"
                              f"contiguous; kwargs {kw}) without being "
                              f"documented as in-place",
                              victim=f"static|{label}|caller-arg:{i}")
        if det and not isinstance(val, C.Raised):
            f2, args2, kw2, _, _ = build()
            np.random.seed(7)
            random.seed(7)
            val2 = C.call(f2, *args2, **kw2)
            ok, why = C.same(val_s, val2, "tight")
            if not ok:
                R.violate(f"{self.pid}|static|{label}|repeat",
                          f"{label} called twice on equal arguments "
                          f"returned different values: {why}",
                          victim=f"static|{label}|repeat")
        return R.as_dict()

    def _viol(self, R, spec, perp, kind, victim, detail):
        R.violate(f"{self.pid}|{spec.name}|{perp}|{kind}:{victim}", detail,
                  victim=f"{spec.name}|{kind}:{victim}")
        # stop flooding: one run reports each victim once (Result dedups)

    # ---- references
    def _fresh(self, st, tdir, SP):
        spec, model = st["spec"], st["model"]
        shutil.rmtree(tdir, ignore_errors=True)
        with cwd(tdir):
            if "copy_of_spec" in st:
                return C.call(lambda: st["copy_of_spec"].build(
                    {k: v for k, v in model.items()}).copy())
            if "_x" in model:
                return C.call(lambda: spec.cls()(model["_x"].copy(),
                                                 **model["_kw"]))
            return C.call(spec.build, {k: v for k, v in model.items()})

    def _ref(self, st, run, op, tdir, SP, prefix=()):
        with shadow.paused():
            return self._ref0(st, run, op, tdir, SP, prefix)

    def _ref0(self, st, run, op, tdir, SP, prefix=()):
        o = self._fresh(st, tdir, SP)
        if isinstance(o, C.Raised):
            return None
        with cwd(tdir):
            for p in prefix:
                if is_random(st["spec"], p["name"]):
                    np.random.seed(5)
                    random.seed(5)
                C.call(invoke, o, p["name"], p["kw"], st["model"])
            return snap(C.call(invoke, o, op["name"], op["kw"], st["model"]))

    def _nondet(self, st, run, op, tdir, SP, ref):
        ref2 = self._ref(st, run, op, tdir, SP)
        return not C.same(ref, ref2, "tight")[0]

    def _perpetrator(self, st, run, before, op, tdir, SP, ref):
        """First earlier query of the same object that alone changes the
        victim's answer on a fresh object."""
        done = set()
        for p in before:
            if p["obj"] != op["obj"]:
                continue
            k = qkey(p["name"], p["kw"])
            if k in done:
                continue
            done.add(k)
            v = self._ref(st, run, op, tdir, SP, prefix=(p,))
            if not C.same(v, ref, "tight")[0]:
                return k
        return "sequence-or-other-object"

    def shrink(self, run, still_fails):
        from sim import minimise as M
        return M.shrink_ops(run, still_fails)

    def sample(self, run):
        return run


MACHINE = C06()
