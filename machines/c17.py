"""C17 -- random models and rewirings keep their documented invariants.

Randomisation machine: generators and rewirings (single-swap steps and bulk
calls) chained on evolving networks, with every random draw supplied by the
simulator (Python modules, Cython module globals, igraph); the documented
invariants are evaluated by a dense numpy reference after every step against
the pre-state.
"""
import numpy as np

from sim.machine import Machine, Result
from sim.seeds import Streams
from sim import compare as C
from sim.errors import DrawBudgetExceeded
from models import graphs as G

GENERATORS = ("er_m", "er_p", "ba", "ba_igraph", "config", "ws", "model")
REWIRES = ("rewire", "geo1", "geo2", "geo3", "geo1", "geo2", "geo3",
           "by_distance", "set_cross", "set_cross_sparse", "rewire_cross",
           "rewire_cross")


def dist_matrix(d, n):
    """Distance matrices with many (near-)equal entries, so that the
    geographical models find eligible swaps."""
    r = G.rng_of(d["s"])
    k = d["kind"]
    if k == "ring":
        D = np.array([[min(abs(i - j), n - abs(i - j)) for j in range(n)]
                      for i in range(n)], dtype=float)
    elif k == "line":
        D = np.array([[abs(i - j) for j in range(n)] for i in range(n)],
                     dtype=float)
    elif k == "classes":
        D = np.zeros((n, n))
        for i in range(n):
            for j in range(i + 1, n):
                D[i, j] = D[j, i] = r.choice((1.0, 1.0, 2.0, 3.5))
    else:
        D = G.sym_matrix(n, d["s"], 0.5, 4.0)
    if d.get("jitter"):
        J = G.sym_matrix(n, d["s"] + 1, 0.0, d["jitter"])
        D = D + J * (D > 0)
    if d.get("perm"):
        p = list(range(n))
        r.shuffle(p)
        D = D[np.ix_(p, p)]
    return D


class C17(Machine):
    pid = "C17"
    rule = ("run = RNG personality + start graph + chain of 2..8 generator / "
            "rewiring / cross-link ops on the evolving network (the output of "
            "one is the input of the next); geographical models run as "
            "single-swap steps and as bulk calls, with distance matrices "
            "other than the grid's own, node groups in arbitrary order. "
            "Non-trivial: a rewiring performed >= 1 accepted swap or a "
            "generator produced >= 1 link. Distinct: op sequence + "
            "personality.")
    probe_names = ("accepted_swaps", "single_step_swap_checked",
                   "bulk_rewire_checked", "budget_exceeded",
                   "model_III_swap_found", "model_II_swap_found",
                   "model_I_swap_found", "cross_links_rewired",
                   "cross_links_set", "unsorted_group", "singleton_group",
                   "custom_distance_matrix", "generator_exact_count",
                   "long_lived_object_reused",
                   "embedded_graph_carries_node_attributes",
                   "copy_rewired_before")
    real_vs_stub = {"real": ["Network generators (ErdosRenyi, BarabasiAlbert, "
                             "BarabasiAlbert_igraph, Configuration, "
                             "WattsStrogatz, Model wrappers), "
                             "Network.randomly_rewire, SpatialNetwork."
                             "randomly_rewire_geomodel_I/II/III and "
                             "set_random_links_by_distance, "
                             "InteractingNetworks.RandomlySetCrossLinks"
                             "(_sparse) / RandomlyRewireCrossLinks, the "
                             "compiled rewiring kernels, igraph's generators"],
                    "stub": ["every random source: numpy.random as seen by "
                             "core/network.py, spatial_network.py, "
                             "interacting_networks.py; the Cython module "
                             "globals rd / randint of core/_ext/numerics; "
                             "igraph's generator (uniform personality only)"]}
    assumptions = [
        "draw values are always legal; an operation that exhausts the draw "
        "budget has no eligible move on this input and is counted as "
        "undefined input, never judged",
        "igraph's own generators are driven by the uniform personality "
        "(an exception cannot be raised through igraph's C callback)",
        "length conditions are evaluated in single precision, as the kernel "
        "does"]

    def budget(self, tier):
        if tier == "thorough":
            return {"wall": 540, "max_runs": 10 ** 9, "chunk": 20,
                    "task_cap": 300}
        return {"wall": 35, "max_runs": 10 ** 9, "chunk": 10, "task_cap": 150}

    # ------------------------------------------------------------ generation
    def generate(self, seed, tier, idx, lru):
        from sim.world.rng_seam import PERSONALITIES
        S = Streams(seed, self.pid, tier, idx)
        a, o = S["args"], S["ops"]
        n = a.randrange(4, 15)
        start = {"p": a.choice((0.2, 0.4, 0.6)), "s": a.randrange(10 ** 9)}
        ops = []
        for _ in range(o.randrange(2, 9)):
            k = o.choice(GENERATORS + REWIRES * 2)
            op = {"op": k}
            if k in ("er_m",):
                op["m"] = o.randrange(0, n * (n - 1) // 2 + 1)
            elif k == "er_p":
                op["p"] = o.choice((0.0, 0.2, 0.5, 1.0))
            elif k in ("ba", "ba_igraph"):
                op["m"] = o.randrange(1, max(2, n // 2))
            elif k == "config":
                deg = [o.randrange(0, n) for _ in range(n)]
                if sum(deg) % 2:
                    deg[0] += 1 if deg[0] < n - 1 else -1
                op["deg"] = deg
            elif k == "ws":
                op["k"] = o.choice((1, 2))
                op["p"] = o.choice((0.0, 0.2, 1.0))
            elif k == "model":
                op["cls"] = o.choice(("Network", "SpatialNetwork",
                                      "GeoNetwork"))
                op["model"] = o.choice(("ErdosRenyi", "ErdosRenyi",
                                        "BarabasiAlbert",
                                        "BarabasiAlbert_igraph",
                                        "Configuration"))
                op["m"] = o.randrange(1, n * (n - 1) // 2)
                op["each"] = o.randrange(1, max(2, n // 2))
                deg = [o.randrange(0, n) for _ in range(n)]
                if sum(deg) % 2:
                    deg[0] += 1 if deg[0] < n - 1 else -1
                op["deg"] = deg
            elif k == "rewire":
                op["it"] = o.choice((1, 3, 10))
            elif k in ("geo1", "geo2", "geo3"):
                op["it"] = o.choice((1, 1, 1, 2, 5))
                op["eps"] = o.choice((0.05, 0.3, 0.6, 1.5))
                op["D"] = {"kind": o.choice(("ring", "ring", "line",
                                             "classes", "random", "grid")),
                           "s": o.randrange(10 ** 9),
                           "jitter": o.choice((0, 0, 0.02, 0.2)),
                           "perm": o.random() < 0.5}
            elif k == "by_distance":
                op["a"] = o.choice((0.0, -0.5, -2.0))
                op["b"] = o.choice((0.0, -1.0, -4.0))
            else:
                perm = list(range(n))
                o.shuffle(perm)
                n1 = o.randrange(1, n - 1)
                n2 = o.randrange(1, n - n1 + 1)
                g1, g2 = perm[:n1], perm[n1:n1 + n2]
                if o.random() < 0.5:
                    g1, g2 = sorted(g1), sorted(g2)
                op["g1"], op["g2"] = g1, g2
                if k == "rewire_cross":
                    op["swaps"] = o.choice((0.5, 1.0, 2.0))
                else:
                    op["how"] = o.choice(("null", "density", "number"))
                    op["density"] = o.choice((0.0, 0.3, 0.7, 1.0))
                    op["number"] = o.randrange(0, n1 * n2 + 1)
            ops.append(op)
        return {"property": self.pid, "seed": seed, "run": idx,
                "config": {"lru": lru, "n": n,
                           "personality": a.choice(PERSONALITIES),
                           "grid_s": a.randrange(10 ** 9),
                           # the long-lived object carries node attributes
                           # on its embedded graph (as after a save())
                           "decorated": a.random() < 0.4},
                "start": start, "ops": ops}

    # ------------------------------------------------------------ execution
    def execute(self, run):
        from sim.world import rng_seam as RNG
        from pyunicorn.core.network import Network
        from pyunicorn.core.spatial_network import SpatialNetwork
        from pyunicorn.core.geo_network import GeoNetwork
        from pyunicorn.core.interacting_networks import InteractingNetworks
        from registry.specs import plain_grid, _geo_grid
        R = Result()
        self._R = R
        cfg = run["config"]
        n = cfg["n"]
        S = Streams(run["seed"], self.pid, "draws", run["run"])
        sr = RNG.ScriptedRandom(S["draws"], cfg["personality"], budget=4000)
        A = np.array(G.gnp(n, run["start"]["p"], run["start"]["s"]),
                     dtype=int)
        grid = plain_grid({"n": n, "s": cfg["grid_s"]})
        ggrid = _geo_grid({"n": n, "s": cfg["grid_s"]})
        sig = [cfg["personality"]]
        self._live = None
        self._decorated = bool(cfg.get("decorated"))
        with RNG.installed(sr):
            for step, op in enumerate(run["ops"]):
                R.steps += 1
                k = op["op"]
                self._tag = k
                sig.append(k)
                sr.begin_op()
                pre = A.copy()
                try:
                    new = self._apply(k, op, A, n, grid, ggrid, Network,
                                      SpatialNetwork, GeoNetwork,
                                      InteractingNetworks, step)
                except DrawBudgetExceeded:
                    R.undefined += 1
                    R.probe("budget_exceeded")
                    R.trace.append((step, k, "budget"))
                    continue
                if new is None:
                    continue
                A = new
                if not np.array_equal(A, pre) and k not in GENERATORS:
                    R.nontrivial = True
                R.trace.append((step, k, C.digest_of(A), sr.total))
        R.opsig = C.digest_of(repr(sig))
        return R.as_dict()

    def _bad(self, check, detail):
        self._R.violate(f"{self.pid}|{self._tag}|{check}", detail,
                        victim=f"{self._tag}|{check}")

    def _simple(self, M, step, n=None, directed=False):
        """Symmetric 0/1 matrix with empty diagonal; returns dense int array
        or None after reporting."""
        if not isinstance(M, C.Raised):
            M = C.call(lambda: np.asarray(
                M.todense() if hasattr(M, "todense") else M))
        if isinstance(M, C.Raised):
            self._bad("raises", f"step {step}: {M!r}")
            return None
        M = np.asarray(M)
        if M.ndim != 2 or M.shape[0] != M.shape[1] or (
                n is not None and M.shape[0] != n):
            self._bad("shape", f"step {step}: shape {M.shape}, expected "
                               f"({n}, {n})")
            return None
        if not np.all((M == 0) | (M == 1)):
            self._bad("not-0/1", f"step {step}: entries {np.unique(M)}")
            return None
        if np.any(np.diag(M) != 0):
            self._bad("self-loop", f"step {step}: non-empty diagonal")
            return None
        if not directed and not np.array_equal(M, M.T):
            self._bad("asymmetric", f"step {step}: adjacency not symmetric")
            return None
        return M.astype(int)

    def _apply(self, k, op, A, n, grid, ggrid, Network, SpatialNetwork,
               GeoNetwork, InteractingNetworks, step):
        R = self._R
        # ---------------- generators
        if k == "er_m":
            out = C.call(Network.ErdosRenyi, n_nodes=n, n_links=op["m"],
                         silence_level=3)
            M = self._simple(out, step, n)
            if M is not None and M.sum() // 2 != op["m"]:
                self._bad("link-count", f"step {step}: requested {op['m']} "
                                        f"links, got {M.sum() // 2}")
            R.probe("generator_exact_count")
            return M
        if k == "er_p":
            return self._simple(C.call(Network.ErdosRenyi, n_nodes=n,
                                       link_probability=op["p"],
                                       silence_level=3), step, n)
        if k == "ba":
            m = op["m"]
            out = C.call(Network.BarabasiAlbert, n_nodes=n, n_links_each=m)
            M = self._simple(out, step, n)
            if M is not None and M.sum() // 2 != m * (n - m):
                self._bad("link-count",
                          f"step {step}: BarabasiAlbert(n={n}, m={m}) has "
                          f"{M.sum() // 2} links, documented {m * (n - m)}")
            R.probe("generator_exact_count")
            return M
        if k == "ba_igraph":
            return self._simple(C.call(Network.BarabasiAlbert_igraph,
                                       n_nodes=n, n_links_each=op["m"]),
                                step, n)
        if k == "config":
            out = C.call(Network.Configuration, op["deg"])
            if isinstance(out, C.Raised):
                R.undefined += 1          # not a graphical request
                return None
            M = self._simple(out, step, n)
            if M is not None and np.any(M.sum(axis=0) > np.array(op["deg"])):
                self._bad("degree-exceeded",
                          f"step {step}: degrees {M.sum(axis=0)} exceed the "
                          f"requested {op['deg']}")
            return M
        if k == "ws":
            if 2 * op["k"] >= n:
                return None
            return self._simple(C.call(Network.WattsStrogatz, n, op["k"],
                                       op["p"]), step, n)
        if k == "model":
            name = op.get("model", "ErdosRenyi")
            want = None
            if name == "ErdosRenyi":
                kw = {"n_nodes": n, "n_links": op["m"], "silence_level": 3}
                want = op["m"]
            elif name == "BarabasiAlbert":
                kw = {"n_nodes": n, "n_links_each": op["each"]}
                want = op["each"] * (n - op["each"])
            elif name == "BarabasiAlbert_igraph":
                kw = {"n_nodes": n, "n_links_each": op["each"]}
            else:
                kw = {"degree": op["deg"]}
            if op["cls"] == "Network":
                net = C.call(Network.Model, name, **kw)
            elif op["cls"] == "SpatialNetwork":
                net = C.call(SpatialNetwork.Model, name, grid, **kw)
            else:
                net = C.call(GeoNetwork.Model, name, ggrid, **kw)
            if isinstance(net, C.Raised):
                if name == "Configuration":
                    R.undefined += 1
                    return None
                self._bad("raises", f"step {step}: {op['cls']}.Model("
                                    f"{name}) raised {net!r}")
                return None
            M = self._simple(net.adjacency, step, n)
            if M is not None and want is not None and M.sum() // 2 != want:
                self._bad("link-count", f"step {step}: {op['cls']}.Model("
                                        f"{name}) documented {want} links, "
                                        f"got {M.sum() // 2}")
            if M is not None and name == "Configuration" and np.any(
                    M.sum(axis=0) > np.array(op["deg"])):
                self._bad("degree-exceeded",
                          f"step {step}: {op['cls']}.Model(Configuration): "
                          f"degrees {M.sum(axis=0)} exceed {op['deg']}")
            return M
        # ---------------- rewirings of the current network
        if k == "rewire":
            if A.sum() < 4:
                return None
            net = Network(adjacency=A.copy(), silence_level=3)
            out = C.call(net.randomly_rewire, op["it"])
            if isinstance(out, C.Raised):
                if out.type == "InternalError":
                    R.undefined += 1      # igraph: no rewiring possible
                    return None
                self._bad("raises", f"step {step}: {out!r}")
                return None
            M = self._simple(net.adjacency, step, n)
            if M is not None:
                self._degrees(M, A, step)
            return M
        if k in ("geo1", "geo2", "geo3"):
            if A.sum() < 4:
                return None
            net = self._live_spatial(A, grid, SpatialNetwork)
            if op["D"]["kind"] == "grid":
                D = np.asarray(grid.distance(), dtype=float)
            else:
                D = dist_matrix(op["D"], n)
                R.probe("custom_distance_matrix")
            fn = {"geo1": net.randomly_rewire_geomodel_I,
                  "geo2": net.randomly_rewire_geomodel_II,
                  "geo3": net.randomly_rewire_geomodel_III}[k]
            out = C.call(fn, D.copy(), op["it"], op["eps"])
            if isinstance(out, C.Raised):
                self._bad("raises", f"step {step}: {out!r}")
                return None
            M = self._simple(net.adjacency, step, n)
            if M is None:
                self._live = None
                return None
            self._degrees(M, A, step)
            self._geo(k, A, M, D, op, step)
            self._consistent(net, M, step)
            return M
        if k == "by_distance":
            net = self._live_spatial(A, grid, SpatialNetwork)
            out = C.call(net.set_random_links_by_distance, op["a"], op["b"])
            if isinstance(out, C.Raised):
                self._bad("raises", f"step {step}: {out!r}")
                return None
            M = self._simple(net.adjacency, step, n)
            if M is not None:
                self._consistent(net, M, step)
            return M
        # ---------------- cross links between two groups
        g1, g2 = op["g1"], op["g2"]
        if g1 != sorted(g1) or g2 != sorted(g2):
            R.probe("unsorted_group")
        if len(g1) == 1 or len(g2) == 1:
            R.probe("singleton_group")
        net = InteractingNetworks(adjacency=A.copy(), silence_level=3)
        cross0 = A[np.ix_(g1, g2)]
        if k == "rewire_cross":
            if cross0.sum() < 2:
                return None
            out = C.call(InteractingNetworks.RandomlyRewireCrossLinks, net,
                         g1, g2, op["swaps"])
            R.probe("cross_links_rewired")
        else:
            kw = {}
            want = int(cross0.sum())
            if op["how"] == "density":
                kw["cross_link_density"] = op["density"]
                want = int(op["density"] * (len(g1) * len(g2)))
            elif op["how"] == "number":
                kw["number_cross_links"] = min(op["number"],
                                               len(g1) * len(g2))
                want = kw["number_cross_links"]
            f = InteractingNetworks.RandomlySetCrossLinks if k == "set_cross" \
                else InteractingNetworks.RandomlySetCrossLinks_sparse
            out = C.call(f, net, g1, g2, **kw)
            R.probe("cross_links_set")
        if isinstance(out, C.Raised):
            self._bad("raises", f"step {step}: {out!r}")
            return None
        M = self._simple(out.adjacency, step, n)
        if M is None:
            return None
        # the returned network is one object: its link count and embedded
        # graph describe the adjacency it reports
        self._consistent(out, M, step)
        if not np.array_equal(np.asarray(net.adjacency), A) or not \
                np.array_equal(np.asarray(net.sp_A.todense()), A):
            self._bad("input-network-modified",
                      f"step {step}: the network passed to the model was "
                      f"changed by the call")
        # everything outside the cross block is untouched
        mask = np.zeros((n, n), dtype=bool)
        mask[np.ix_(g1, g2)] = True
        mask[np.ix_(g2, g1)] = True
        if np.any((M != A) & ~mask):
            self._bad("untouched-part-changed",
                      f"step {step}: links outside the cross block of "
                      f"{g1} x {g2} changed")
        cross1 = M[np.ix_(g1, g2)]
        if k == "rewire_cross":
            if cross1.sum() != cross0.sum():
                self._bad("cross-link-count",
                          f"step {step}: {cross0.sum()} -> {cross1.sum()}")
            if not (np.array_equal(cross1.sum(axis=1), cross0.sum(axis=1))
                    and np.array_equal(cross1.sum(axis=0),
                                       cross0.sum(axis=0))):
                self._bad("cross-degree-changed",
                          f"step {step}: cross degrees of {g1} / {g2} "
                          f"changed: {cross0.sum(axis=1)}/"
                          f"{cross0.sum(axis=0)} -> {cross1.sum(axis=1)}/"
                          f"{cross1.sum(axis=0)}")
            self._degrees(M, A, step)
        else:
            if cross1.sum() != want:
                self._bad("cross-link-count",
                          f"step {step}: requested {want} cross links, got "
                          f"{cross1.sum()}")
        return M

    def _live_spatial(self, A, grid, SpatialNetwork):
        """The in-place randomisations act on one long-lived object as long
        as the chain stays within them (its adjacency is the chain's)."""
        live = getattr(self, "_live", None)
        if live is not None and np.array_equal(
                np.asarray(live.adjacency), A):
            self._R.probe("long_lived_object_reused")
            return live
        self._live = SpatialNetwork(grid=grid, adjacency=A.copy(),
                                    silence_level=3)
        if self._decorated:
            self._R.probe("embedded_graph_carries_node_attributes")
            self._live.set_node_attribute(
                "station", np.arange(A.shape[0], dtype=float))
            # ... and node weights of its own: an untouched part of the
            # network that every in-place randomisation must leave alone
            self._live_w = 1.0 + 0.25 * np.arange(A.shape[0])
            self._live.node_weights = self._live_w.copy()
        if self._decorated and A.sum() >= 4:
            # somebody took a copy and randomised *it*: nothing of that may
            # reach the original
            c = self._live.copy()
            C.call(c.randomly_rewire, 3)
            self._R.probe("copy_rewired_before")
            self._consistent(self._live, A, -1)
        return self._live

    def _consistent(self, net, M, step):
        """After an in-place randomisation the object's representations
        must agree with its adjacency matrix."""
        if self._decorated and net is getattr(self, "_live", None):
            w = np.asarray(net.node_weights)
            if w.shape != self._live_w.shape or not np.array_equal(
                    w, self._live_w):
                self._bad("node-weights-changed",
                          f"step {step}: the call changed the node weights "
                          f"of the network: {w} instead of {self._live_w}")
        links = int(M.sum()) // 2
        got = sorted(tuple(sorted(e)) for e in net.graph.get_edgelist())
        want = sorted((int(i), int(j)) for i, j in np.argwhere(np.triu(M)))
        if net.n_links != links or got != want:
            self._bad("object-inconsistent",
                      f"step {step}: after the call the object reports "
                      f"{net.n_links} links, its embedded graph has "
                      f"{len(got)}, its adjacency matrix {links}")

    def _degrees(self, M, A, step):
        if not np.array_equal(M.sum(axis=0), A.sum(axis=0)):
            self._bad("degree-changed",
                      f"step {step}: degree sequence {A.sum(axis=0)} -> "
                      f"{M.sum(axis=0)}")
        elif not np.array_equal(M, A):
            self._R.probe("accepted_swaps")

    def _geo(self, k, A, M, D, op, step):
        """Documented per-swap condition (single step) or the n*eps bound
        on the sorted link-length vector (bulk), in single precision."""
        R = self._R
        D32 = D.astype(np.float32)
        eps = np.float32(op["eps"])
        iu = np.triu_indices(A.shape[0], 1)
        l0 = np.sort(D32[iu][A[iu] > 0])
        l1 = np.sort(D32[iu][M[iu] > 0])
        it = op["it"]
        if len(l0) == len(l1) and len(l0):
            R.probe("bulk_rewire_checked")
            if np.max(np.abs(l1 - l0)) >= it * float(eps) * 2 + 1e-6:
                self._bad("length-distribution",
                          f"step {step}: sorted link lengths moved by "
                          f"{np.max(np.abs(l1 - l0)):.4g} after {it} swaps "
                          f"with tolerance {float(eps)}")
        if it != 1:
            return
        rem = np.argwhere(np.triu((A > 0) & (M == 0)))
        add = np.argwhere(np.triu((M > 0) & (A == 0)))
        if len(rem) == 0 and len(add) == 0:
            return
        if len(rem) != 2 or len(add) != 2:
            self._bad("not-a-single-swap",
                      f"step {step}: one iteration removed {len(rem)} and "
                      f"added {len(add)} links")
            return
        R.probe("single_step_swap_checked")
        R.probe({"geo1": "model_I_swap_found", "geo2": "model_II_swap_found",
                 "geo3": "model_III_swap_found"}[k])

        def close(x, y):
            return abs(np.float32(x) - np.float32(y)) < eps
        r0, r1 = D32[tuple(rem[0])], D32[tuple(rem[1])]
        a0, a1 = D32[tuple(add[0])], D32[tuple(add[1])]
        if not ((close(r0, a0) and close(r1, a1))
                or (close(r0, a1) and close(r1, a0))):
            self._bad("length-class",
                      f"step {step}: swap replaced links of length "
                      f"{r0:.4g}, {r1:.4g} by {a0:.4g}, {a1:.4g}: no "
                      f"one-to-one match within {float(eps)}")
        if k in ("geo2", "geo3"):
            # every node keeps its incident link lengths within eps
            for v in set(rem.ravel()):
                old = [D32[v, u] for u in range(A.shape[0])
                       if A[v, u] and not M[v, u]]
                new = [D32[v, u] for u in range(A.shape[0])
                       if M[v, u] and not A[v, u]]
                if len(old) != 1 or len(new) != 1 or not close(old[0],
                                                               new[0]):
                    self._bad("node-length-class",
                              f"step {step}: node {v} exchanged a link of "
                              f"length {old} for {new} (tolerance "
                              f"{float(eps)})")
                    break
        if k == "geo3":
            deg = A.sum(axis=0)
            p0 = sorted(tuple(sorted((deg[i], deg[j]))) for i, j in rem)
            p1 = sorted(tuple(sorted((deg[i], deg[j]))) for i, j in add)
            if p0 != p1:
                self._bad("degree-pairs",
                          f"step {step}: degree pairs of rewired links "
                          f"{p0} -> {p1}")


MACHINE = C17()
