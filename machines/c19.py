"""C19 -- distributed computation returns the serial result.

World: the real utils/mpi.py once per rank on a simulated communicator
(sim/world/mpi_world.py), the real master loops and chunk kernels of
core/network.py, and a simulated multiprocessing pool.
"""
import copy
import sys

import numpy as np

from sim.machine import Machine, Result
from sim.seeds import Streams
from sim.errors import HarnessSignal
from sim import compare as C
from models import graphs as G

MEASURES = ("newman", "nsi_newman", "nsi_arenas")
EAGER = (2048, 16384, 65536, 1 << 20)


class C19(Machine):
    pid = "C19"
    has_clock = True
    run_wall_cap = 60.0
    rule = ("run = (workload, graph recipe, weights, ranks/workers, silence "
            "level, world knobs); schedule, latencies, stalls and compute "
            "times drawn from the run's `sched` stream. Non-trivial: >= 2 "
            "chunks were being processed on different ranks at the same "
            "virtual time, or the simulated pool executed >= 2 non-empty "
            "batches. Distinct: hash of the scheduler decision sequence "
            "(rank, event kind, peer).")
    probe_names = ("multi_chunk", "chunk_shorter_than_step",
                   "more_slaves_than_chunks", "result_before_requested",
                   "master_stalled_mid_submit", "rendezvous_send_used",
                   "several_components_distributed",
                   "silence_level_ge1_with_mpi", "empty_pool_batch",
                   "wrong_order_refused", "generated_ids", "pinned_slave",
                   "get_next_result_used", "fault_horizon_reached",
                   "empty_chunk", "ids_reused_in_second_wave",
                   "example_program_mc",
                   "example_program_large")
    # reported, never judged (DESIGN §4 C19): all sends synchronous
    info_probes = ("zero_buffer_deadlock", "zero_buffer_completed")
    faults_na = ("message_loss", "message_duplication", "partition",
                 "rank_crash", "clock_skew", "disk_faults")
    real_vs_stub = {
        "real": ["pyunicorn/utils/mpi.py (one module object per rank: "
                 "submit_call, get_result, get_next_result, terminate, serve, "
                 "run)", "master loops of Network.newman_betweenness / "
                 "nsi_newman_betweenness / nsi_arenas_betweenness / "
                 "_nsi_betweenness(parallelize=True)",
                 "compiled chunk kernels _mpi_newman_betweenness, "
                 "_mpi_nsi_newman_betweenness, _nsi_betweenness; "
                 "Network._mpi_nsi_arenas_betweenness",
                 "pickle of every message and pool batch"],
        "stub": ["mpi4py.MPI.COMM_WORLD (SimComm: size, rank, send, recv, "
                 "Abort)", "the `time` module seen by each rank's mpi.py "
                 "(virtual clock)", "multiprocessing.get_context/Pool/"
                 "cpu_count as seen by core/network.py (SimPool)"]}
    assumptions = [
        "MPI is reliable and non-overtaking per (source, destination); "
        "the simulator never drops, duplicates or reorders within a channel "
        "and never crashes a rank",
        "result messages are below the eager limit (>= 2 KiB) as on real "
        "interconnects; the all-synchronous configuration is reported as a "
        "probe, not judged",
        "a real MPI library's progress engine and real spawn start-up are "
        "outside the simulator"]

    def budget(self, tier):
        if tier == "thorough":
            return {"wall": 840, "max_runs": 10 ** 9, "chunk": 8,
                    "task_cap": 400}
        return {"wall": 45, "max_runs": 10 ** 9, "chunk": 4,
                "task_cap": 200}

    # ---- parent side: real multiprocessing pool calls validate SimPool
    def extra_checks(self, tier, src):
        if tier != "thorough":
            return {}
        import json
        import os
        import subprocess
        here = os.path.dirname(os.path.dirname(os.path.abspath(__file__)))
        r = subprocess.run(
            ["timeout", "300", "/venv/bin/python",
             os.path.join(here, "selftest", "real_pool.py"), src],
            stdout=subprocess.PIPE, stderr=subprocess.PIPE, text=True)
        try:
            d = json.loads(r.stdout.strip().splitlines()[-1])
        except Exception:
            return {"harness": [f"real pool validation failed to run: "
                                f"{r.stderr[-400:]}"]}
        out = {"evidence": {"real_spawn_pool_validation": d}}
        if not d["ok"]:
            out["violations"] = [{
                "sig": "C19|real-pool|nsi_betweenness|differs",
                "detail": f"real multiprocessing pool differs from serial "
                          f"by {d['max_rel_dev']}"}]
        return out

    # ------------------------------------------------------------ generation
    def generate(self, seed, tier, idx, lru):
        S = Streams(seed, self.pid, tier, idx)
        a, k = S["args"], S["knobs"]
        kind = a.choice(("measure",) * 5 + ("pool",) * 2 + ("protocol",) * 3
                        + ("example",))
        # graph: several components straddling 10 nodes, isolated nodes
        ncomp = a.choice((1, 1, 2, 2, 3))
        sizes = [a.choice((2, 3, 5, 9, 10, 11, 12, 15, 21, 24, 31, 40))
                 for _ in range(ncomp)]
        while sum(sizes) > 60:
            sizes[sizes.index(max(sizes))] //= 2
        sizes = [max(2, s) for s in sizes]
        graph = {"sizes": sizes, "p": a.choice((0.0, 0.1, 0.3, 0.6)),
                 "gseed": a.randrange(10 ** 9),
                 "isolated": a.choice((0, 0, 1, 2))}
        n = sum(sizes) + graph["isolated"]
        cfg = {"lru": lru, "kind": kind,
               "silence_level": k.choice((0, 1, 2, 3)),
               "weights": a.choice((None, a.randrange(10 ** 9)))}
        world = {"eager_limit": k.choice(EAGER),
                 "p_slow": k.choice((0.0, 0.2, 0.6)),
                 "p_stall": k.choice((0.0, 0.05, 0.2)),
                 "fault_horizon": k.choice((0.0, 0.5, 5.0, 1e9)),
                 "compute_decades": k.choice(((-3, 0), (-4, -3), (-2, 1)))}
        run = {"property": self.pid, "seed": seed, "run": idx,
               "config": cfg, "graph": graph, "world": world}
        if kind == "example":
            # the shapes of docs/source/examples/modules/mpi/*.py, reduced
            cfg["example"] = a.choice(("mc", "mc", "large"))
            cfg["size"] = self._size(a, n)
            cfg["jobs"] = a.choice((1, 3, 8, 20))
            cfg["verbose"] = a.random() < 0.3
        elif kind == "measure":
            cfg["measure"] = a.choice(MEASURES)
            cfg["size"] = self._size(a, n)
            # un-judged probe configuration: every send synchronous
            if a.random() < 0.03:
                world["eager_limit"] = 0
                cfg["probe_zero_buffer"] = True
            if cfg["measure"] == "nsi_arenas":
                # the measure is also defined on directed networks
                cfg["directed"] = a.random() < 0.25
                cfg["exclude_neighbors"] = a.choice((True, False))
                cfg["stopping_mode"] = a.choice(("neighbors", "twinness"))
            if cfg["measure"] == "nsi_newman":
                cfg["add_local_ends"] = a.choice((False, True))
        elif kind == "pool":
            cfg["cpu_count"] = a.choice(
                (1, 2, 3, 4, 7, 16, n, n + 1, n + 2))
            cfg["nsi"] = a.choice((True, False))
            cfg["sources"] = self._subset(a, n)
            cfg["targets"] = self._subset(a, n)
            # one long-lived object: serial call, new node weights, then the
            # same call distributed and serial
            cfg["reweigh"] = a.choice((None, None, "unit", "new"))
        else:
            cfg["kernel"] = a.choice(("newman", "nsi_newman", "arenas"))
            cfg["size"] = self._size(a, n)
            # an arbitrary contiguous chunking of the largest component
            m = max(sizes)
            ncuts = a.choice((0, 1, 2, 3, 5, m - 1))
            cuts = sorted(a.randrange(0, m + 1) for _ in range(ncuts))
            cfg["cuts"] = cuts
            cfg["ids"] = a.choice(("index", "generated", "strings"))
            cfg["pin"] = a.choice((False, False, True))
            cfg["collect"] = a.choice(("submission", "fifo_random",
                                       "get_next", "wrong_first"))
            cfg["time_est"] = a.choice(("default", "varied"))
            cfg["waves"] = a.choice((1, 1, 2))
            cfg["vseed"] = a.randrange(10 ** 9)
        return run

    @staticmethod
    def _size(a, n):
        return a.choice((2, 2, 3, 3, 4, 5, 7, 9, 13, n // 2 + 1, n, n + 1,
                         n + 2))

    @staticmethod
    def _subset(a, n):
        c = a.choice(("all", "all", "some", "one"))
        if c == "all":
            return None
        if c == "one":
            return [a.randrange(n)]
        k = a.randrange(1, n + 1)
        return sorted(a.sample(range(n), k))

    # ------------------------------------------------------------ execution
    def execute(self, run):
        import pyunicorn.core.network as NW
        from pyunicorn.core.network import Network
        from sim.world import mpi_world as MW
        import random as _random

        R = Result()
        cfg, g = run["config"], run["graph"]
        S = Streams(run["seed"], self.pid, "sched", run["run"])
        rng = S["sched"]
        np.random.seed(run["seed"] % (2 ** 31) + run["run"] % 1000003)
        _random.seed(run["run"])
        A = G.components_graph(g["sizes"], g["p"], g["gseed"],
                               g["isolated"])
        n = A.shape[0]
        w = None if cfg["weights"] is None else G.weights(n, cfg["weights"])
        sl = cfg["silence_level"]

        directed = bool(cfg.get("directed"))
        if directed:
            # drop one direction of a third of the links
            rd = _random.Random(g["gseed"] + 7)
            for i in range(n):
                for j in range(i + 1, n):
                    if A[i, j] and rd.random() < 0.33:
                        if rd.random() < 0.5:
                            A[i, j] = 0
                        else:
                            A[j, i] = 0
            R.probe("directed_network_distributed")

        def mk():
            return Network(adjacency=A.copy(), node_weights=None if w is None
                           else w.copy(), directed=directed,
                           silence_level=sl)

        kind = cfg["kind"]
        tag = f"{self.pid}|{kind}|"
        if kind == "pool":
            return self._pool(run, R, NW, mk, rng, n, tag)

        src = sys.modules["pyunicorn"].__file__.rsplit("/pyunicorn/", 1)[0]
        size = cfg["size"]
        world = MW.World(size, rng, run["world"], src)
        master_mpi = world.modules[0]
        if not master_mpi.available:
            raise RuntimeError("simulated mpi module reports unavailable")

        fake_main = None
        if kind == "example":
            import types
            fake_main = types.ModuleType("__main__")
            box = {}
            ex = cfg["example"]
            if ex == "mc":
                def do_one(i):
                    Ai = G.gnp(12, 0.4, 1000 + i)
                    return Network(adjacency=Ai,
                                   silence_level=3).global_clustering()

                def master_body():
                    for i in range(cfg["jobs"]):
                        master_mpi.submit_call("do_one", (i,))
                    s_ = 0
                    for i in range(cfg["jobs"]):
                        s_ += master_mpi.get_next_result()
                    box["out"] = s_ / cfg["jobs"]
                    master_mpi.info()
                fake_main.do_one = do_one
                serial = C.call(lambda: sum(
                    do_one(i) for i in range(cfg["jobs"])) / cfg["jobs"])
                tol = "exact"
            else:
                net_l = mk()

                def master_body():
                    box["out"] = net_l.newman_betweenness()
                    master_mpi.info()
                serial = C.call(lambda: mk().newman_betweenness())
                tol = "exact"
            fake_main.master = master_body

            def master():
                out = C.call(master_mpi.run, cfg["verbose"])
                return out if isinstance(out, C.Raised) else box.get("out")
            tag += ex
        elif kind == "measure":
            meas = cfg["measure"]
            serial = C.call(self._measure, mk(), cfg)
            net = mk()

            def master():
                try:
                    return C.call(self._measure, net, cfg)
                finally:
                    master_mpi.terminate()
            tag += meas
            tol = "exact" if meas in ("newman", "nsi_newman") else \
                (1e-10, 1e-12)
        else:
            job = self._protocol_job(run, NW, mk, A, w)
            serial = job["serial"]

            def master():
                try:
                    return C.call(job["master"], master_mpi, R)
                finally:
                    master_mpi.terminate()
            tag += cfg["kernel"]
            tol = "exact" if cfg["kernel"] != "arenas" else (1e-10, 1e-12)

        saved = NW.mpi
        saved_main = sys.modules["__main__"]
        NW.mpi = master_mpi
        outcome = None
        try:
            if fake_main is not None:
                sys.modules["__main__"] = fake_main
            world.spawn(0, master)
            for r in range(1, size):
                world.spawn(r, world.modules[r].run if fake_main is not None
                            else world.modules[r].serve)
            try:
                world.run(until_done=(0,), max_steps=4000)
                world.drain()
            except MW.Deadlock as e:
                outcome = ("deadlock", str(e))
            except MW.StepBudget as e:
                outcome = ("no-progress", str(e))
        finally:
            NW.mpi = saved
            sys.modules["__main__"] = saved_main
            if outcome is not None or any(
                    rk.state != MW.DONE for rk in world.ranks):
                world.abort()

        st = world.stats
        R.steps = world.steps
        R.sim_time = world.now
        R.opsig = C.digest_of(repr(world.decisions))
        n_jobs = sum(int(world.modules[r].n_processed[r])
                     for r in range(1, size))
        R.nontrivial = st["max_inflight"] >= 2
        R.trace.append(("decisions", R.opsig, world.steps,
                        round(world.now, 9)))
        for k_, v in (("multi_chunk", n_jobs >= 2),
                      ("more_slaves_than_chunks", 0 < n_jobs < size - 1),
                      ("result_before_requested",
                       st["result_before_requested"] > 0),
                      ("master_stalled_mid_submit",
                       st["master_stalled_mid_submit"] > 0),
                      ("rendezvous_send_used", st["rendezvous_sends"] > 0),
                      ("silence_level_ge1_with_mpi", sl >= 1),
                      ("several_components_distributed",
                       sum(1 for s in g["sizes"] if s >= 11) >= 2),
                      ("fault_horizon_reached",
                       world.now >= run["world"]["fault_horizon"] > 0)):
            if v:
                R.probe(k_)
        for s_ in g["sizes"]:
            if s_ >= 11 and kind == "measure":
                mp = max(1, int(np.ceil(min((size - 1) * 10.0, 0.1 * s_))))
                step = int(np.ceil(s_ / mp))
                if s_ % step:
                    R.probe("chunk_shorter_than_step")
        R.fault("stall", st["stalls"])
        R.fault("slow_message", st["latency_gt_1ms"])
        R.fault("rendezvous_send", st["rendezvous_sends"])

        if cfg.get("probe_zero_buffer"):
            R.probe("zero_buffer_deadlock" if outcome is not None
                    else "zero_buffer_completed")
            R.trace.append(("zero-buffer-probe", outcome is not None))
            return R.as_dict()
        if kind == "example":
            R.probe("example_program_" + cfg["example"])
        if outcome is not None:
            R.violate(tag + "|" + outcome[0],
                      f"{outcome[0]}: master did not finish: {outcome[1]}")
            R.trace.append(outcome[0])
            return R.as_dict()
        for rk in world.ranks:
            if rk.exc is not None:
                R.violate(tag + f"|rank-exception|{type(rk.exc).__name__}",
                          f"rank {rk.r} raised {rk.exc!r}")
        got = world.ranks[0].result
        ok, why = C.same(got, serial, tol)
        R.trace.append(("result", C.digest_of(got)))
        if not ok:
            kind_ = "raises" if isinstance(got, C.Raised) else "differs"
            R.violate(tag + "|" + kind_ +
                      (f"|{got.type}" if isinstance(got, C.Raised) else ""),
                      f"distributed != serial: {why}; size={size} "
                      f"sizes={g['sizes']} silence={sl}")
        # conservation over the master's bookkeeping
        mm = master_mpi
        if not isinstance(got, C.Raised):
            left = (len(mm.queue), len(mm.assigned),
                    sum(len(q) for q in mm.slave_queue))
            if left != (0, 0, 0):
                R.violate(tag + "|bookkeeping",
                          f"after completion queue/assigned/slave_queue "
                          f"hold {left} entries")
            if int(np.sum(mm.n_processed[1:])) != n_jobs:
                R.violate(tag + "|bookkeeping",
                          f"n_processed on master {mm.n_processed[1:]} != "
                          f"jobs served {n_jobs}")
        # bounded completion once faults have stopped
        bound = 6 * (n_jobs + 2) * size + 200
        if getattr(world, "steps_after_horizon", 0) > bound:
            R.violate(tag + "|liveness",
                      f"{world.steps_after_horizon} scheduler steps after "
                      f"the fault horizon (bound {bound})")
        return R.as_dict()

    @staticmethod
    def _measure(net, cfg):
        m = cfg["measure"]
        if m == "newman":
            return net.newman_betweenness()
        if m == "nsi_newman":
            return net.nsi_newman_betweenness(
                add_local_ends=cfg.get("add_local_ends", False))
        return net.nsi_arenas_betweenness(
            exclude_neighbors=cfg["exclude_neighbors"],
            stopping_mode=cfg["stopping_mode"])

    # ---- pool workload
    def _pool(self, run, R, NW, mk, rng, n, tag):
        from sim.world import mpi_world as MW
        cfg = run["config"]
        pw = MW.PoolWorld(rng, cfg["cpu_count"])
        kw = dict(sources=cfg["sources"], targets=cfg["targets"],
                  nsi=cfg["nsi"])
        serial = C.call(lambda: mk().nsi_betweenness(parallelize=False, **kw))
        saved = (NW.get_context, NW.cpu_count)
        NW.get_context, NW.cpu_count = pw.get_context, pw.cpu_count
        try:
            got = C.call(lambda: mk().nsi_betweenness(parallelize=True, **kw))
        finally:
            NW.get_context, NW.cpu_count = saved
        st = pw.stats
        R.steps = st["pool_batches"]
        R.opsig = C.digest_of(repr((pw.order, cfg["cpu_count"], n)))
        R.nontrivial = st["pool_multi_batch"] > 0
        if st["empty_pool_batch"]:
            R.probe("empty_pool_batch")
        if st["pool_maps"] != 1:
            R.violate(tag + "nsi_betweenness|pool-not-used",
                      f"parallelize=True made {st['pool_maps']} map calls")
        ok, why = C.same(got, serial, (1e-10, 1e-12))
        R.trace.append(("pool", pw.order, C.digest_of(got)))
        if not ok:
            kind_ = "raises" if isinstance(got, C.Raised) else "differs"
            R.violate(tag + "nsi_betweenness|" + kind_,
                      f"pool != serial: {why}; cpu_count={cfg['cpu_count']} "
                      f"targets={cfg['targets']} sources={cfg['sources']}")
        if cfg.get("reweigh") and ok:
            # the same comparison on one object that has already answered
            # serially and was given other node weights since
            R.probe("pool_after_reweighting")
            net = mk()
            C.call(lambda: net.nsi_betweenness(parallelize=False, **kw))
            net.node_weights = None if cfg["reweigh"] == "unit" else \
                1.0 + 0.5 * np.arange(n)[::-1]
            NW.get_context, NW.cpu_count = pw.get_context, pw.cpu_count
            try:
                got2 = C.call(lambda: net.nsi_betweenness(parallelize=True,
                                                          **kw))
            finally:
                NW.get_context, NW.cpu_count = saved
            serial2 = C.call(lambda: net.nsi_betweenness(parallelize=False,
                                                         **kw))
            ok2, why2 = C.same(got2, serial2, (1e-10, 1e-12))
            R.trace.append(("pool2", C.digest_of(got2)))
            if not ok2:
                R.violate(tag + "nsi_betweenness|differs-after-reweighting",
                          f"on one object, after node_weights were set to "
                          f"{cfg['reweigh']!r}: pool != serial: {why2}")
        return R.as_dict()

    # ---- protocol workload: harness master over the real submit/get calls
    def _protocol_job(self, run, NW, mk, A, w):
        from pyunicorn.core._ext.numerics import (
            _mpi_newman_betweenness, _mpi_nsi_newman_betweenness)
        from pyunicorn.core._ext.types import (
            to_cy, ADJ, DFIELD, MASK, DWEIGHT)
        from pyunicorn.core.network import Network
        cfg, g = run["config"], run["graph"]
        import random as _r
        rr = _r.Random(cfg["vseed"])
        # the largest component, in the labelling of the full graph
        net = mk()
        comps = [c for c in net.graph.connected_components()]
        comp = max(comps, key=len)
        Ac = np.array(A[np.ix_(comp, comp)], dtype=np.int8)
        N = len(comp)
        wc = np.ones(N) if w is None else np.asarray(w)[comp]
        V = np.array([[round(rr.uniform(-1, 1), 6) for _ in range(N)]
                      for _ in range(N)])
        bounds = [0] + [min(c, N) for c in cfg["cuts"]] + [N]
        chunks = [(bounds[i], bounds[i + 1]) for i in range(len(bounds) - 1)]
        kernel = cfg["kernel"]
        nae = (1 - Ac - np.identity(N)).astype(MASK)
        if kernel == "newman":
            name = "core._ext.numerics._mpi_newman_betweenness"

            def args(s, e):
                return (to_cy(Ac[s:e, :], ADJ), to_cy(V, DFIELD), N, s, e)
            full = _mpi_newman_betweenness(*args(0, N))[0]
            mode = "slice"
        elif kernel == "nsi_newman":
            name = "core._ext.numerics._mpi_nsi_newman_betweenness"
            wcy = to_cy(wc, DWEIGHT)

            def args(s, e):
                return (to_cy(Ac[s:e, :], ADJ), to_cy(V, DFIELD), N, wcy,
                        nae[s:e, :], s, e)
            full = _mpi_nsi_newman_betweenness(*args(0, N))[0]
            mode = "slice"
        else:
            name = "Network._mpi_nsi_arenas_betweenness"
            sub = Network(adjacency=Ac, directed=False, node_weights=wc,
                          silence_level=3)
            sp_P = (sub.sp_nsi_diag_k_inv() * sub.sp_Aplus()
                    * sub.sp_diag_w()).todok()
            Aplus = (Ac + np.identity(N)).astype(int)

            def args(s, e):
                return (N, sp_P, Aplus[s:e, :], wc, wc[s:e], s, e, True,
                        "neighbors", None)
            chunks = [c for c in chunks if c[1] > c[0]]   # kernel needs >= 1
            err, res = Network._mpi_nsi_arenas_betweenness(*args(0, N))
            full = res[0]
            mode = "sum"
        pid = self.pid

        def master(mpi, R):
            out = one_wave(mpi, R)
            if cfg.get("waves", 1) == 2:
                # ids "can be re-used after get_result()": a second wave
                # with the same ids must give the same result
                R.probe("ids_reused_in_second_wave")
                out2 = one_wave(mpi, R)
                if not np.array_equal(out, out2):
                    R.violate(f"{pid}|protocol|{kernel}|second-wave",
                              "re-using the ids after all results had been "
                              "collected gave a different reassembly")
            return out

        def one_wave(mpi, R):
            ids = []
            size = mpi.size
            for ci, (s, e) in enumerate(chunks):
                if s == e:
                    R.probe("empty_chunk")
                kw = {}
                if cfg["ids"] == "index":
                    kw["id"] = ci
                elif cfg["ids"] == "strings":
                    kw["id"] = f"job-{ci}"
                else:
                    R.probe("generated_ids")
                if cfg["pin"]:
                    kw["slave"] = 1 + (ci * 7) % (size - 1)
                    R.probe("pinned_slave")
                if cfg["time_est"] == "varied":
                    kw["time_est"] = 1 + (ci * 3) % 5
                ids.append(mpi.submit_call(name, args(s, e),
                                           module="pyunicorn", **kw))
            slave_of = {i: mpi.assigned[i] for i in ids}
            order = list(ids)
            how = cfg["collect"]
            results = {}
            if how == "wrong_first":
                # find a slave with two jobs; asking for its second job
                # first violates the documented rule and must be refused
                by = {}
                for i in ids:
                    by.setdefault(slave_of[i], []).append(i)
                multi = [v for v in by.values() if len(v) >= 2]
                if multi:
                    bad = multi[0][1]
                    refused = False
                    try:
                        r_ = mpi.get_result(bad)
                    except Exception:
                        refused = True
                    if refused:
                        R.probe("wrong_order_refused")
                    else:
                        results[bad] = r_
                        R.violate(
                            f"{pid}|protocol|{kernel}|wrong-order-accepted",
                            "get_result for the second call of a slave "
                            "returned before the first was collected")
                        order.remove(bad)
            elif how == "fifo_random":
                # a random interleaving of the per-slave FIFO queues
                by = {}
                for i in ids:
                    by.setdefault(slave_of[i], []).append(i)
                qs = [v for _, v in sorted(by.items())]
                order = []
                while qs:
                    q = qs[rr.randrange(len(qs))]
                    order.append(q.pop(0))
                    qs = [q_ for q_ in qs if q_]
            if how == "get_next":
                R.probe("get_next_result_used")
                for i in ids:
                    results[i] = mpi.get_next_result()
                extra = mpi.get_next_result()
                if extra is not None:
                    R.violate(f"{pid}|protocol|{kernel}|extra-result",
                              "get_next_result returned a value with an "
                              "empty queue")
            else:
                for i in order:
                    results[i] = mpi.get_result(i)
            if mode == "slice":
                out = np.zeros(N)
                for i in ids:
                    b, s, e = results[i]
                    out[s:e] = b
            else:
                out = np.zeros(N)
                for i in ids:
                    err_, res_ = results[i]
                    out += res_[0]
            # each chunk's own (start, end) must come back with its id
            for i, (s, e) in zip(ids, chunks):
                r_ = results[i] if mode == "slice" else results[i][1]
                if (r_[1], r_[2]) != (s, e):
                    R.violate(f"{pid}|protocol|{kernel}|wrong-chunk",
                              f"id {i!r} returned chunk {(r_[1], r_[2])} "
                              f"instead of {(s, e)}")
            return out

        return {"serial": full, "master": master}

    def shrink(self, run, still_fails):
        best = run
        # world knobs to defaults, then smaller sizes
        for key, val in (("p_stall", 0.0), ("p_slow", 0.0),
                         ("fault_horizon", 0.0), ("eager_limit", 1 << 20)):
            cand = copy.deepcopy(best)
            if cand["world"][key] != val:
                cand["world"][key] = val
                if still_fails(cand):
                    best = cand
        for key, vals in (("silence_level", (0, 3)), ("size", (2, 3)),
                          ("weights", (None,)), ("cpu_count", (2, 1))):
            for v in vals:
                cand = copy.deepcopy(best)
                if key in cand["config"] and cand["config"][key] != v:
                    cand["config"][key] = v
                    if still_fails(cand):
                        best = cand
                        break
        cand = copy.deepcopy(best)
        cand["graph"]["isolated"] = 0
        if still_fails(cand):
            best = cand
        while len(best["graph"]["sizes"]) > 1:
            ok = False
            for i in range(len(best["graph"]["sizes"])):
                cand = copy.deepcopy(best)
                del cand["graph"]["sizes"][i]
                if "cuts" in cand["config"]:
                    m = max(cand["graph"]["sizes"])
                    cand["config"]["cuts"] = [min(c, m) for c in
                                              cand["config"]["cuts"]]
                if still_fails(cand):
                    best, ok = cand, True
                    break
            if not ok:
                break
        return best


MACHINE = C19()
