"""Handling of sub-agent seeded changes (never committed to /repo).

  import  <PID>            copy /tmp/seed-<PID>/_seeded/* to /verif/seeded/
  confirm <ID> [...]       in a scratch worktree: suite passes with the patch,
                           demo fails with it and passes without it
  detect  <ID> [...]       apply to /repo, run ./check <prop> quick, undo
All results are recorded in seeded/<ID>/meta.json.
"""
import glob
import json
import os
import re
import shutil
import subprocess
import sys
import time

VERIF = os.path.dirname(os.path.abspath(__file__))
SEEDED = os.path.join(VERIF, "seeded")
PY = "/venv/bin/python"
WT = "/tmp/confirm-wt"


def sh(cmd, cwd=None, env=None, cap=1800):
    r = subprocess.run(["timeout", str(cap), "bash", "-c", cmd], cwd=cwd,
                       env=env, stdout=subprocess.PIPE,
                       stderr=subprocess.STDOUT, text=True)
    return r.returncode, r.stdout


def load_meta(d):
    p = os.path.join(d, "meta.json")
    try:
        return json.load(open(p))
    except Exception:
        return {}


def save_meta(d, m):
    json.dump(m, open(os.path.join(d, "meta.json"), "w"), indent=1)


def do_import(pid):
    src = next((d for d in (f"/tmp/seed{r}-{pid}/_seeded"
                            for r in ("8", "7", "6", "5", "4", "3", "2", ""))
                if os.path.isdir(d)), None)
    if src is None:
        raise SystemExit(f"no seeded directory for {pid}")
    for d in sorted(glob.glob(src + "/*")):
        name = os.path.basename(d)
        dst = os.path.join(SEEDED, name)
        shutil.rmtree(dst, ignore_errors=True)
        shutil.copytree(d, dst)
        print("imported", name)


def ensure_wt():
    if not os.path.isdir(WT):
        rc, out = sh(f"git -C /repo worktree add -q --detach {WT} HEAD")
        if rc:
            raise SystemExit(out)
    else:
        sh("git checkout -q --detach $(git -C /repo rev-parse HEAD) && "
           "git checkout -- . && git clean -fdq -e '*.so' -e build", cwd=WT)


def build_wt(force=False):
    """Extensions for the worktree: copy /repo's when sources are equal."""
    need = force
    for pkg in ("core", "climate", "funcnet", "timeseries"):
        ext = f"{WT}/src/pyunicorn/{pkg}/_ext"
        if not glob.glob(ext + "/numerics.*.so"):
            need = True
    if need:
        rc, out = sh(f"{PY} setup.py -q build_ext --inplace -j 4", cwd=WT)
        if rc:
            raise SystemExit("build failed\n" + out[-2000:])


def touches_compiled(patch):
    s = open(patch).read()
    return bool(re.search(r"^\+\+\+ .*(\.pyx|\.pxd|src_numerics\.c|setup\.py)",
                          s, re.M))


def suite(env):
    rc, out = sh(f"{PY} -m pytest -q -p no:cacheprovider --timeout=900 "
                 "--continue-on-collection-errors 2>&1 | tail -3", cwd=WT,
                 env=env)
    m = re.search(r"(\d+) passed", out)
    passed = int(m.group(1)) if m else 0
    failed = re.search(r"(\d+) failed", out)
    return passed, int(failed.group(1)) if failed else 0, out.strip()[-300:]


def confirm(name):
    d = os.path.join(SEEDED, name)
    patch = os.path.join(d, "patch.diff")
    meta = load_meta(d)
    ensure_wt()
    env = dict(os.environ, PYTHONPATH=f"{WT}/src")
    comp = touches_compiled(patch)
    build_wt()
    # clean tree: demo passes
    rc0, out0 = sh(f"{PY} {d}/demo.py", cwd=WT, env=env, cap=300)
    rc, out = sh(f"git apply {patch}", cwd=WT)
    if rc:
        meta["confirmed"] = {"ok": False, "why": "patch does not apply: "
                             + out[-300:]}
        save_meta(d, meta)
        print(name, meta["confirmed"])
        return
    if comp:
        build_wt(force=True)
    passed, failed, tail = suite(env)
    rc1, out1 = sh(f"{PY} {d}/demo.py", cwd=WT, env=env, cap=300)
    sh("git checkout -- .", cwd=WT)
    if comp:
        build_wt(force=True)
    ok = (rc0 == 0 and rc1 != 0 and rc1 != 124 and passed >= 573
          and failed == 0)
    meta["confirmed"] = {
        "ok": ok, "demo_rc_clean": rc0, "demo_rc_patched": rc1,
        "suite_passed_with_patch": passed, "suite_failed_with_patch": failed,
        "base_commit": sh("git -C /repo rev-parse --short HEAD")[1].strip(),
        "ran": "tools_seeded.py confirm (scratch worktree, suite + demo "
               "with and without the patch)"}
    if not ok:
        meta["confirmed"]["demo_tail_patched"] = out1[-400:]
        meta["confirmed"]["demo_tail_clean"] = out0[-400:]
        meta["confirmed"]["suite_tail"] = tail
    save_meta(d, meta)
    print(name, json.dumps(meta["confirmed"])[:600])


def detect(name, tier="quick", extra_env=None):
    # "C01-8@C06": run the check of another property against the change
    name, _, other = name.partition("@")
    d = os.path.join(SEEDED, name)
    patch = os.path.join(d, "patch.diff")
    meta = load_meta(d)
    prop = other or meta.get("property") or name.split("-")[0]
    tkey = tier + ("@" + other if other else "")
    st = sh("git -C /repo status --porcelain --untracked-files=no")[1]
    if st.strip():
        raise SystemExit("/repo has uncommitted changes; refusing\n" + st)
    rc, out = sh(f"git -C /repo apply {patch}")
    if rc:
        print(name, "patch does not apply to /repo:", out[-300:])
        return
    try:
        tmp = f"/var/tmp/seeded-run-{name}"
        env = dict(os.environ, VERIF_EVIDENCE_DIR=tmp + "/evidence",
                   VERIF_REPLAY_DIR=tmp + "/replays", VERIF_MINIMISE_N="1")
        env.update(extra_env or {})
        t0 = time.time()
        rc, out = sh(f"./check {prop} {tier}", cwd=VERIF, env=env, cap=3400)
        lines = [l for l in out.splitlines()
                 if l.startswith(("VIOLATION", "violation detail",
                                  "HARNESS"))]
        lines += [l for l in out.splitlines() if l.startswith("KNOWN")]
        caught = rc == 1 and any(l.startswith("VIOLATION") for l in lines)
        meta.setdefault("detection", {})[tkey] = {
            "caught": caught, "rc": rc, "wall_s": round(time.time() - t0, 1),
            "lines": [l[:300] for l in lines[:4]],
            "verif_commit": sh("git rev-parse --short HEAD",
                               cwd=VERIF)[1].strip()}
        save_meta(d, meta)
        print(name, tkey, "CAUGHT" if caught else f"MISSED rc={rc}",
              [l[:200] for l in lines[:2]])
        if not caught:
            print(out[-800:])
        shutil.rmtree(tmp, ignore_errors=True)
    finally:
        sh("git -C /repo checkout -- .")


def main(argv):
    cmd = argv[0]
    if cmd == "import":
        for p in argv[1:]:
            do_import(p)
    elif cmd == "confirm":
        for n in argv[1:]:
            confirm(n)
        sh(f"git -C /repo worktree remove --force {WT}")
    elif cmd == "detect":
        tier = "quick"
        names = []
        for a in argv[1:]:
            if a in ("quick", "thorough"):
                tier = a
            else:
                names.append(a)
        for n in names:
            detect(n, tier)
    elif cmd == "mdtable":
        print("| id | what was changed | needs | confirmed | caught by "
              "`./check <property> quick` (signature) |")
        print("|---|---|---|---|---|")
        for d in sorted(glob.glob(SEEDED + "/*")):
            m = load_meta(d)
            det = m.get("detection", {}).get("quick", {})
            if not det.get("caught"):
                for k_, v_ in m.get("detection", {}).items():
                    if k_.startswith("quick@") and v_.get("caught"):
                        det = dict(v_, by=k_[6:])
            sig = ""
            for l in det.get("lines", []):
                if "sig=" in l:
                    sig = l.split("sig=")[1].split("'")[0][:90]
                    break
            print(f"| {os.path.basename(d)} | "
                  f"{m.get('summary', '').replace('|', '/')[:200]} | "
                  f"{m.get('needs', '').replace('|', '/')[:200]} | "
                  f"{'yes' if m.get('confirmed', {}).get('ok') else 'NO'} | "
                  f"{'yes' if det.get('caught') else 'no'}"
                  f"{' (by the ' + det['by'] + ' check)' if det.get('by') else ''}"
                  f"{': `' + sig + '`' if sig else ''} |")
    elif cmd == "table":
        for d in sorted(glob.glob(SEEDED + "/*")):
            m = load_meta(d)
            det = m.get("detection", {})
            print(os.path.basename(d), "confirmed=",
                  m.get("confirmed", {}).get("ok"),
                  {t: v["caught"] for t, v in det.items()},
                  "|", m.get("summary", "")[:90])


if __name__ == "__main__":
    main(sys.argv[1:])
