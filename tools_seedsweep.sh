#!/bin/bash
# False-alarm sweep: every quick check under several VERIF_SEED values on the
# unchanged tree.  Evidence and replays go to a scratch directory.
# usage: ./tools_seedsweep.sh "C19 C18 ..." "1 2 3 4"
pids=${1:-"C19 C18 C09 C13 C01 C06 C05 C15 C17"}
seeds=${2:-"1 2 3 4 5 6"}
out=/var/tmp/seedsweep; mkdir -p $out
for p in $pids; do for s in $seeds; do
  VERIF_SEED=$s VERIF_EVIDENCE_DIR=$out/ev VERIF_REPLAY_DIR=$out/replays ./check $p quick > $out/$p-$s.log 2>&1
  rc=$?
  echo "$p seed=$s rc=$rc $(grep -c '^VIOLATION' $out/$p-$s.log) violations; $(tail -1 $out/$p-$s.log | cut -c1-120)"
done; done
