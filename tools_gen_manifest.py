"""Regenerates MANIFEST.json from the table below (run by hand after edits)."""
import json, os
HERE = os.path.dirname(os.path.abspath(__file__))
BASE = json.load(open("/root/.vp/BASELINE.json"))["cmd"] if os.path.exists("/root/.vp/BASELINE.json") else ""
BASELINE_CMD = ("cd /repo && /venv/bin/python -m pytest -ra -q -p no:cacheprovider "
                "--timeout=900 --continue-on-collection-errors")

NA = {
 "C02": "pure function of (graph, weights, node, split proportion): no schedule, history on one object, random source, clock or environment fault in the statement; iterated splits build new immutable objects (DESIGN §2, §5)",
 "C03": "input->output relation per call (measure equals its definition); nothing for a simulator to schedule or fault (DESIGN §2, §5)",
 "C04": "metamorphic relation over inputs (node renumbering); no schedule/history/fault (DESIGN §2, §5)",
 "C07": "per-call relation over (series, metric, threshold); 'configurations' only select an algorithm variant (DESIGN §2, §5)",
 "C08": "per-call relation; the sequential/matrix modes are two pure algorithms, not a schedule (DESIGN §2, §5)",
 "C10": "per-call numerical agreement with reference statistics (DESIGN §2, §5)",
 "C11": "per-call relation over (graph, group pair) (DESIGN §2, §5)",
 "C12": "per-call closed-form geometry (DESIGN §2, §5)",
 "C14": "per-call geometric criterion over series (DESIGN §2, §5)",
 "C16": "per-call counting rule over event matrices and parameters (DESIGN §2, §5)",
 "C20": "quantified over inputs and decided by a sanitiser observing single calls; the simulator adds no schedule or fault the statement mentions (DESIGN §2, §5)",
}

CHECKS = {}   # filled by per-property entries below
def add(pid, text, note, technique, ref):
    CHECKS[pid] = {
        "property_id": pid,
        "quick_cmd": f"./check {pid} quick",
        "thorough_cmd": f"./check {pid} thorough",
        "evidence_file": f"/verif/evidence/{pid}.json",
        "replay_cmd_template": "./check replay {path}",
        "engine": "sim",
        "level_claimed": {"category": "exploration", "text": text, "design_ref": ref},
        "level_note": note,
        "technique": technique,
    }

PENDING = {}
exec(open(os.path.join(HERE, "manifest_entries.py")).read())

man = {
 "version": 1,
 "setup_cmd": "./check build",
 "hooks": {"guard": "PYUNICORN_VERIF", "enable": "no hooks: every seam is a module attribute, sys.modules entry or official setter (DESIGN §6); checks run a scratch build of /repo's working tree",
           "baseline_off_cmd": BASELINE_CMD, "source_commits": [], "add_only": True},
 "engines": [{"name": "sim", "path": "/verif/sim", "serves_properties": sorted(CHECKS),
              "kind_free_text": "hand-written deterministic simulator: seeded run generator, baton-passed rank threads on a discrete-event MPI world, scripted RNG seams, write-fault injection, reference-model oracles, ddmin minimiser, JSON replay files"}],
 "checks": [CHECKS[k] for k in sorted(CHECKS)],
 "not_applicable": [{"property_id": k, "reason": v} for k, v in sorted({**NA, **PENDING}.items())],
 "notes": "See DESIGN.md. Exit codes: 0 held, 1 VIOLATION, 2 HARNESS-ERROR (never counted as a verdict).",
}
json.dump(man, open(os.path.join(HERE, "MANIFEST.json"), "w"), indent=1)
print("checks:", sorted(CHECKS), "n/a:", sorted({**NA, **PENDING}))
