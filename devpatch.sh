#!/bin/bash
# developer convenience: dev copy = /repo HEAD + one seeded patch (or none)
cd /verif && ./devsync.sh && if [ -n "$1" ]; then patch -s -p1 -d /var/tmp/repo-dev < seeded/$1/patch.diff; fi
