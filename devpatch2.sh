#!/bin/bash
# second scratch copy (/var/tmp/repo-dev2) = /repo HEAD + one seeded patch; run a check against it:
#   ./devpatch2.sh C13-10 C13 quick
D=/var/tmp/repo-dev2
rm -rf $D && mkdir -p $D && git -C /repo archive HEAD src setup.py setup.cfg pyproject.toml MANIFEST.in | tar -x -C $D
[ -n "$1" ] && [ "$1" != "-" ] && patch -s -p1 -d $D < /verif/seeded/$1/patch.diff
shift
[ -n "$1" ] && VERIF_REPO=$D VERIF_EVIDENCE_DIR=/var/tmp/dev2-evidence VERIF_REPLAY_DIR=/var/tmp/dev2-replays VERIF_MINIMISE_N=${VERIF_MINIMISE_N:-1} exec ./check "$@"
