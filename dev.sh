#!/bin/bash
# developer convenience: run a check against the stable dev copy of the repo
export VERIF_REPO=/var/tmp/repo-dev VERIF_EVIDENCE_DIR=/var/tmp/dev-evidence VERIF_REPLAY_DIR=/var/tmp/dev-replays
exec ./check "$@"
