"""Declarative specs of the memoising classes: model (primary inputs),
constructor, mutators with model updates.  Shared by C01 and C06.

Models are plain JSON-able dictionaries of *recipes* (seeded generators);
`mat()` materialises a recipe.  Every object keeps its node count.
"""
import copy

import numpy as np

from models import graphs as G


# C06 hooks: arrays handed to constructors are recorded in `_capture`
# (caller-owned data), grids / data objects are shared through `_share`
_capture = None
_share = None


def mat(rec):
    """Materialise a recipe into a numpy array (pure function)."""
    out = _mat(rec)
    if _capture is not None and out is not None:
        capture(rec.get("k"), out)
    return out


def capture(key, arr):
    """Record a caller-owned array with its bytes *before* it is handed to
    the code under test."""
    _capture.append((key, arr, arr.tobytes(), arr.dtype.str, arr.shape))


_share_makers = {}


def shared(kind, rec, make):
    """One object per recipe while sharing is switched on."""
    if _share is None:
        return make()
    key = kind + repr(sorted(rec.items()))
    if key not in _share:
        _share[key] = make()
        _share_makers[key] = make
    return _share[key]


def reseed(model, r):
    """Same class, sizes and options as `model`, other data: every recipe's
    seed is redrawn (objects of equal shape meet in the library's work
    arrays and class-level tables)."""
    m = clone(model)

    def walk(d):
        for k, v in d.items():
            if isinstance(v, dict):
                if isinstance(v.get("s"), int):
                    v["s"] = r.randrange(10 ** 9)
                walk(v)
    walk(m)
    return m


def like(model, first):
    """Make `model` share grid / data / node count with `first`."""
    n = first["n"]

    def walk(d):
        for k, v in d.items():
            if isinstance(v, dict):
                if "k" in v and "n" in v:
                    v["n"] = n
                walk(v)
    walk(model)
    model["n"] = n
    for f in ("grid", "X"):
        if f in first and f in model:
            model[f] = clone(first[f])
    return model


def _mat(rec):
    if rec is None:
        return None
    k = rec["k"]
    if k == "gnp":
        return G.gnp(rec["n"], rec["p"], rec["s"], rec.get("d", False))
    if k == "w":
        return G.weights(rec["n"], rec["s"])
    if k == "sym":
        return G.sym_matrix(rec["n"], rec["s"])
    if k == "mat":
        return G.matrix(rec["n"], rec["s"])
    if k in ("isym", "imat"):
        # small whole numbers: weighted path lengths collide with each
        # other and with N
        r = G.rng_of(rec["s"])
        n = rec["n"]
        W = np.array([[float(r.choice((1, 1, 2, 2, 3))) for _ in range(n)]
                      for _ in range(n)])
        return W if k == "imat" else np.triu(W, 1) + np.triu(W, 1).T
    if k == "series":
        return G.series(rec["T"], rec["n"], rec["s"])
    if k == "pseries":
        # near-periodic series with a small drift (twins exist)
        r = G.rng_of(rec["s"])
        T, n = rec["T"], rec["n"]
        X = np.zeros((T, n))
        for j in range(n):
            P = r.choice((3, 4, 5))
            base = [round(r.uniform(-2, 2), 2) for _ in range(P)]
            for t in range(T):
                X[t, j] = base[t % P] + 1e-3 * t + 1e-5 * j
        return X
    if k == "series1":
        x = G.series(rec["T"], 1, rec["s"])[:, 0]
        return x.astype(rec["dt"]) if rec.get("dt") else x
    if k == "sim":
        S = G.sym_matrix(rec["n"], rec["s"], 0.0, 1.0)
        np.fill_diagonal(S, 1.0)
        return S
    if k == "res":
        A = _mat(rec["A"])
        return G.sym_matrix(A.shape[0], rec["s"], 0.5, 5.0) * A
    if k == "events":
        r = G.rng_of(rec["s"])
        return np.array([[1 if r.random() < rec["p"] else 0
                          for _ in range(rec["n"])] for _ in range(rec["T"])])
    if k == "list":
        return np.array(rec["v"])
    raise KeyError(k)


def geo_grid(rec):
    return shared("geogrid", rec, lambda: _geo_grid(rec))


def _geo_grid(rec):
    from pyunicorn.core.geo_grid import GeoGrid
    r = G.rng_of(rec["s"])
    n = rec["n"]
    lat = [round(r.uniform(-80, 80), 1) for _ in range(n)]
    lon = [round(r.uniform(-170, 170), 1) for _ in range(n)]
    return GeoGrid(time_seq=np.arange(rec.get("T", 10), dtype=float),
                   lat_seq=np.array(lat), lon_seq=np.array(lon),
                   silence_level=2)


def plain_grid(rec):
    from pyunicorn.core.grid import Grid
    r = G.rng_of(rec["s"])
    n = rec["n"]
    sp = np.array([[round(r.uniform(-5, 5), 2) for _ in range(n)]
                   for _ in range(rec.get("dim", 2))])
    return Grid(time_seq=np.arange(rec.get("T", 10), dtype=float),
                space_seq=sp, silence_level=2)


def resolve_arg(v, model):
    """Resolve '@x' placeholders of the query argument table."""
    if not isinstance(v, str) or not v.startswith("@"):
        return v
    n = model["n"]
    if v == "@half1":
        return list(range(0, max(1, n // 2)))
    if v == "@half2":
        return list(range(max(1, n // 2), n))
    if v == "@range":
        return np.arange(n, dtype=float)
    if v == "@attr":
        return "w"
    if v == "@perm":
        return list(range(n))[::-1]
    raise KeyError(v)


# ------------------------------------------------------------------ mutators
class Mut:
    """name; gen(r, model) -> args (JSON-able); apply(obj, args, model);
    update(model, args, obj) mutates the model in place.  reinit=True marks
    mutators that re-run a base-class constructor on the live object."""

    def __init__(self, name, gen, apply, update, reinit=False,
                 when=lambda m: True):
        self.name, self.gen, self.apply, self.update = name, gen, apply, update
        self.reinit = reinit
        self.when = when


def _new_A(r, m):
    return {"k": "gnp", "n": m["n"], "p": r.choice((0.2, 0.4, 0.7)),
            "s": r.randrange(10 ** 9), "d": m.get("directed", False)}


def _upd_A(m, a, obj):
    m["A"] = a["A"]
    m["A_assigned"] = True
    m["attrs"] = {}                 # the embedded graph is rebuilt


def _apply_adj(obj, a, m):
    A = mat(a["A"])
    if a.get("sparse"):
        import scipy.sparse as sp
        A = sp.csc_matrix(A)
    obj.adjacency = A


def _apply_edges(obj, a, m):
    A = mat(a["A"])
    if m.get("directed"):
        e = np.argwhere(A)
    else:
        e = np.argwhere(np.triu(A))
    if len(e) == 0:                     # edgeless lists are refused upstream
        e = np.array([[0, 1]])
        A = np.zeros_like(A)
        A[0, 1] = 1
        if not m.get("directed"):
            A[1, 0] = 1
        a["A"] = {"k": "list", "v": A.tolist()}
    obj.set_edge_list(e, m["n"])


def _upd_w(m, a, obj):
    m["w"] = a["w"]


def _apply_attr(obj, a, m):
    obj.set_link_attribute(a["name"], mat(a["W"]))


def _upd_attr(m, a, obj):
    m["attrs"][a["name"]] = a["W"]


def _apply_rewire(obj, a, m):
    obj.randomly_rewire(a["it"])


def _upd_readback(m, a, obj):
    m["A"] = {"k": "list", "v": np.asarray(obj.sp_A.todense()).tolist()}
    m["A_assigned"] = True
    m["attrs"] = {}


NET_MUTS = [
    Mut("adjacency=", lambda r, m: {"A": _new_A(r, m),
                                    "sparse": r.random() < 0.3},
        _apply_adj, _upd_A),
    Mut("set_edge_list", lambda r, m: {"A": _new_A(r, m)}, _apply_edges,
        _upd_A),
    Mut("node_weights=", lambda r, m: {"w": r.choice((None, {
        "k": "w", "n": m["n"], "s": r.randrange(10 ** 9)}, {
        "k": "w", "n": m["n"], "s": r.randrange(10 ** 9)}))},
        lambda obj, a, m: setattr(obj, "node_weights", mat(a["w"])), _upd_w),
    Mut("set_link_attribute", lambda r, m: {
        "name": r.choice(("w", "w", "w2")),
        "W": {"k": r.choice(("", "i")) + (
            "mat" if m.get("directed") else "sym"), "n": m["n"],
              "s": r.randrange(10 ** 9)}}, _apply_attr, _upd_attr),
    Mut("del_link_attribute", lambda r, m: {
        "name": sorted(m["attrs"])[r.randrange(len(m["attrs"]))]},
        lambda obj, a, m: obj.del_link_attribute(a["name"]),
        lambda m, a, obj: m["attrs"].pop(a["name"]),
        when=lambda m: bool(m["attrs"])),
    Mut("randomly_rewire", lambda r, m: {"it": r.choice((1, 3, 10))},
        _apply_rewire, _upd_readback,
        when=lambda m: not m.get("directed")),
]


def _reinit_update(m):
    """What a re-run base constructor does to Network-level state."""
    m["A_assigned"] = False
    m["A"] = None
    m["attrs"] = {}
    m["w"] = "default"              # node weights fall back to the class rule


# ------------------------------------------------------------------ specs
class Spec:
    name = ""
    family = "network"
    deny = ()
    net_level = True          # has the Network-level mutators
    derived_A = False         # adjacency derived from other primary inputs

    def cls(self):
        raise NotImplementedError

    def gen_model(self, r):
        raise NotImplementedError

    def construct(self, m):
        raise NotImplementedError

    def mutators(self):
        return list(NET_MUTS) if self.net_level else []

    # twin = constructor + explicit weights / attributes where the public
    # constructor cannot take them
    def build(self, m):
        obj = self.construct(m)
        self.post(obj, m)
        return obj

    def post(self, obj, m):
        # "default": the class rule; None: explicit unit weights
        if m.get("w", "default") != "default" and not self.w_in_ctor(m):
            obj.node_weights = mat(m["w"])
        for name in sorted(m.get("attrs", {})):
            obj.set_link_attribute(name, mat(m["attrs"][name]))

    def w_in_ctor(self, m):
        return False

    def projection_cls(self):
        """Nearest base class whose constructor takes (adjacency, directed,
        node_weights): InteractingNetworks or Network, by MRO."""
        from pyunicorn.core.network import Network
        from pyunicorn.core.interacting_networks import InteractingNetworks
        for c in self.cls().__mro__[1:]:
            if c in (InteractingNetworks, Network):
                return c
        return Network

    def projection(self, m, weights):
        """Twin of the un-memoised primary state in the nearest base class
        whose constructor takes an adjacency matrix."""
        net = self.projection_cls()(
            adjacency=mat(m["A"]), directed=m.get("directed", False),
            node_weights=weights, silence_level=3)
        for name in sorted(m.get("attrs", {})):
            net.set_link_attribute(name, mat(m["attrs"][name]))
        return net

    def projectable(self, name):
        """A query can be judged on the projection twin iff both classes
        share the very same function for it."""
        if name.startswith("attr:"):
            return True
        a = getattr(self.cls(), name, None)
        b = getattr(self.projection_cls(), name, None)
        return a is not None and a is b


def _net_model(r, n=None, directed=None):
    n = n or r.randrange(4, 9)
    d = (r.random() < 0.25) if directed is None else directed
    m = {"n": n, "directed": d,
         "A": {"k": "gnp", "n": n, "p": r.choice((0.3, 0.5, 0.8)),
               "s": r.randrange(10 ** 9), "d": d},
         "A_assigned": False,
         "w": r.choice((None, {"k": "w", "n": n, "s": r.randrange(10 ** 9)})),
         "attrs": {}}
    if r.random() < 0.8:
        m["attrs"]["w"] = {"k": r.choice(("", "i")) + (
            "mat" if d else "sym"), "n": n, "s": r.randrange(10 ** 9)}
    return m


class NetworkSpec(Spec):
    name = "Network"

    def cls(self):
        from pyunicorn.core.network import Network
        return Network

    def gen_model(self, r):
        return _net_model(r)

    def w_in_ctor(self, m):
        return True

    def construct(self, m):
        w = mat(m["w"]) if m["w"] not in (None, "default") else None
        return self.cls()(adjacency=mat(m["A"]), directed=m["directed"],
                          node_weights=w, silence_level=3)


class InteractingSpec(NetworkSpec):
    name = "InteractingNetworks"

    def cls(self):
        from pyunicorn.core.interacting_networks import InteractingNetworks
        return InteractingNetworks


class GeoSpec(Spec):
    name = "GeoNetwork"

    def cls(self):
        from pyunicorn.core.geo_network import GeoNetwork
        return GeoNetwork

    def gen_model(self, r):
        m = _net_model(r)
        m["w"] = "default"
        m["grid"] = {"n": m["n"], "s": r.randrange(10 ** 9)}
        m["nwt"] = r.choice(("surface", "irrigation"))
        return m

    def construct(self, m):
        return self.cls()(grid=geo_grid(m["grid"]), adjacency=mat(m["A"]),
                          directed=m["directed"], node_weight_type=m["nwt"],
                          silence_level=3)

    def mutators(self):
        def upd(m, a, obj):
            m["nwt"] = a["t"]
            m["w"] = "default"
        return list(NET_MUTS) + [
            Mut("set_node_weight_type",
                lambda r, m: {"t": r.choice(("surface", "irrigation"))},
                lambda obj, a, m: obj.set_node_weight_type(a["t"]), upd)]


class SpatialSpec(Spec):
    name = "SpatialNetwork"

    def cls(self):
        from pyunicorn.core.spatial_network import SpatialNetwork
        return SpatialNetwork

    def gen_model(self, r):
        m = _net_model(r)
        m["grid"] = {"n": m["n"], "s": r.randrange(10 ** 9)}
        return m

    def construct(self, m):
        return self.cls()(grid=plain_grid(m["grid"]), adjacency=mat(m["A"]),
                          directed=m["directed"], silence_level=3)


class ResSpec(Spec):
    name = "ResNetwork"

    def cls(self):
        from pyunicorn.core.resistive_network import ResNetwork
        return ResNetwork

    def gen_model(self, r):
        n = r.randrange(4, 8)
        A = {"k": "list", "v": G.connected_graph(
            n, r.choice((0.2, 0.5)), r.randrange(10 ** 9)).tolist()}
        return {"n": n, "directed": False, "A": A, "A_assigned": False,
                "w": "default", "attrs": {},
                "R": {"k": "res", "A": A, "s": r.randrange(10 ** 9)}}

    def construct(self, m):
        R = mat(m["R"])
        obj = self.cls()(R, adjacency=mat(m["A"]), silence_level=3)
        obj.__dict__["_verif_caller_R"] = R     # the caller keeps its array
        return obj

    def mutators(self):
        def upd(m, a, obj):
            m["R"] = a["R"]

        def apply_new(obj, a):
            R = mat(a["R"])
            obj.update_resistances(R)
            obj.__dict__["_verif_caller_R"] = R

        def apply_same(obj, a):
            R = obj.__dict__["_verif_caller_R"]
            R[...] = _mat(a["R"])
            obj.update_resistances(R)
        # Network-level topology changes would desynchronise the
        # resistances; only weights/attributes and the resistances change
        keep = [x for x in NET_MUTS if x.name in (
            "node_weights=", "set_link_attribute", "del_link_attribute")]
        return keep + [
            Mut("update_resistances",
                lambda r, m: {"R": {"k": "res", "A": m["A"],
                                    "s": r.randrange(10 ** 9)}},
                lambda obj, a, m: apply_new(obj, a), upd),
            # the caller edits the array it passed last time and passes the
            # same object again
            Mut("update_resistances:same-array",
                lambda r, m: {"R": {"k": "res", "A": m["A"],
                                    "s": r.randrange(10 ** 9)}},
                lambda obj, a, m: apply_same(obj, a), upd)]


class ClimateSpec(Spec):
    name = "ClimateNetwork"
    derived_A = True

    def cls(self):
        from pyunicorn.climate.climate_network import ClimateNetwork
        return ClimateNetwork

    def gen_model(self, r):
        n = r.randrange(4, 9)
        return {"n": n, "directed": False, "A": None, "A_assigned": False,
                "w": "default", "attrs": {},
                "grid": {"n": n, "s": r.randrange(10 ** 9)},
                "S": {"k": "sim", "n": n, "s": r.randrange(10 ** 9)},
                "thr": r.choice((0.3, 0.5, 0.7)), "rho": None,
                "non_local": r.random() < 0.25, "nwt": "surface"}

    def ctor_kw(self, m):
        kw = {"non_local": m["non_local"], "node_weight_type": m["nwt"],
              "silence_level": 3}
        if m["rho"] is not None:
            kw["link_density"] = m["rho"]
        else:
            kw["threshold"] = m["thr"]
        return kw

    def construct(self, m):
        return self.cls()(grid=geo_grid(m["grid"]),
                          similarity_measure=mat(m["S"]), directed=False,
                          **self.ctor_kw(m))

    def clim_muts(self):
        def u_thr(m, a, obj):
            _reinit_update(m)
            m["thr"], m["rho"] = a["v"], None

        def u_rho(m, a, obj):
            _reinit_update(m)
            m["rho"] = a["v"]

        def u_nl(m, a, obj):
            if m["non_local"] != a["v"]:
                _reinit_update(m)
                if m["rho"] is not None:
                    # the network is regenerated at the *current threshold*
                    m["thr"], m["rho"] = float(obj.threshold()), None
                m["non_local"] = a["v"]
        return [
            Mut("set_threshold",
                lambda r, m: {"v": r.choice((0.2, 0.4, 0.6, 0.8))},
                lambda obj, a, m: obj.set_threshold(a["v"]), u_thr, True),
            Mut("set_link_density",
                lambda r, m: {"v": r.choice((0.2, 0.5, 0.8))},
                lambda obj, a, m: obj.set_link_density(a["v"]), u_rho, True),
            Mut("set_non_local", lambda r, m: {"v": r.random() < 0.5},
                lambda obj, a, m: obj.set_non_local(a["v"]), u_nl, True)]

    def mutators(self):
        return list(NET_MUTS) + self.clim_muts()


class TsonisSpec(ClimateSpec):
    name = "TsonisClimateNetwork"
    kind = "tsonis"

    def cls(self):
        import pyunicorn.climate as PC
        return {"tsonis": PC.TsonisClimateNetwork,
                "spearman": PC.SpearmanClimateNetwork,
                "mutual": PC.MutualInfoClimateNetwork,
                "partial": PC.PartialCorrelationClimateNetwork}[self.kind]

    def gen_model(self, r):
        m = ClimateSpec.gen_model(self, r)
        del m["S"]
        m["grid"]["T"] = 36
        m["X"] = {"k": "series", "T": 36, "n": m["n"],
                  "s": r.randrange(10 ** 9)}
        m["winter"] = r.random() < 0.5
        return m

    def data(self, m):
        return shared("climatedata", {**m["X"], "g": m["grid"]["s"]},
                      lambda: self._data(m))

    def _data(self, m):
        from pyunicorn.climate.climate_data import ClimateData
        # different data sets carry different names (the durable mutual
        # information cache in the working directory is keyed on the name)
        return ClimateData(observable=mat(m["X"]), grid=geo_grid(m["grid"]),
                           time_cycle=12, observable_name=f"x{m['X']['s']}",
                           silence_level=3)

    def construct(self, m):
        return self.cls()(self.data(m), winter_only=m["winter"],
                          **self.ctor_kw(m))

    def mutators(self):
        def u_w(m, a, obj):
            _reinit_update(m)
            if m["rho"] is not None:
                m["thr"], m["rho"] = float(obj.threshold()), None
            m["winter"] = a["v"]
        return ClimateSpec.mutators(self) + [
            Mut("set_winter_only", lambda r, m: {"v": r.random() < 0.5},
                lambda obj, a, m: obj.set_winter_only(a["v"]), u_w, True)]


class SpearmanSpec(TsonisSpec):
    name = "SpearmanClimateNetwork"
    kind = "spearman"


class MutualInfoSpec(TsonisSpec):
    name = "MutualInfoClimateNetwork"
    kind = "mutual"


class PartialSpec(TsonisSpec):
    name = "PartialCorrelationClimateNetwork"
    kind = "partial"

    def gen_model(self, r):
        m = TsonisSpec.gen_model(self, r)
        # keep the correlation matrix well conditioned: more samples than
        # nodes, all months
        m["winter"] = False
        return m

    def mutators(self):
        return [mu for mu in TsonisSpec.mutators(self)
                if mu.name != "set_winter_only"]


class HavlinSpec(TsonisSpec):
    name = "HavlinClimateNetwork"

    def cls(self):
        from pyunicorn.climate.havlin import HavlinClimateNetwork
        return HavlinClimateNetwork

    def gen_model(self, r):
        m = TsonisSpec.gen_model(self, r)
        del m["winter"]
        m["max_delay"] = r.choice((1, 2, 4))
        return m

    def construct(self, m):
        return self.cls()(self.data(m), m["max_delay"], **self.ctor_kw(m))

    def mutators(self):
        def u_d(m, a, obj):
            _reinit_update(m)
            if m["rho"] is not None:
                m["thr"], m["rho"] = float(obj.threshold()), None
            m["max_delay"] = a["v"]
        return ClimateSpec.mutators(self) + [
            Mut("set_max_delay", lambda r, m: {"v": r.choice((1, 2, 3, 5))},
                lambda obj, a, m: obj.set_max_delay(a["v"]), u_d, True)]


class HilbertSpec(TsonisSpec):
    name = "HilbertClimateNetwork"

    def cls(self):
        from pyunicorn.climate.hilbert import HilbertClimateNetwork
        return HilbertClimateNetwork

    def gen_model(self, r):
        m = TsonisSpec.gen_model(self, r)
        del m["winter"]
        m["directed"] = r.random() < 0.5
        return m

    def construct(self, m):
        return self.cls()(self.data(m), directed=m["directed"],
                          **self.ctor_kw(m))

    def mutators(self):
        def u_d(m, a, obj):
            _reinit_update(m)
            if m["rho"] is not None:
                m["thr"], m["rho"] = float(obj.threshold()), None
            m["directed"] = a["v"]
        # the Network-level topology mutators assume an undirected model
        keep = [x for x in NET_MUTS if x.name in (
            "node_weights=", "set_link_attribute", "del_link_attribute")]
        return keep + self.clim_muts() + [
            Mut("set_directed", lambda r, m: {"v": r.random() < 0.5},
                lambda obj, a, m: obj.set_directed(a["v"]), u_d, True)]


class CoupledSpec(ClimateSpec):
    name = "CoupledClimateNetwork"

    def cls(self):
        from pyunicorn.climate.coupled_climate_network import \
            CoupledClimateNetwork
        return CoupledClimateNetwork

    def gen_model(self, r):
        m = ClimateSpec.gen_model(self, r)
        n1 = max(2, m["n"] // 2)
        n2 = max(2, m["n"] - n1)
        m["n"] = n1 + n2
        m["S"]["n"] = m["n"]
        m["grid"] = {"n": n1, "s": r.randrange(10 ** 9)}
        m["grid2"] = {"n": n2, "s": r.randrange(10 ** 9)}
        return m

    def construct(self, m):
        return self.cls()(geo_grid(m["grid"]), geo_grid(m["grid2"]),
                          mat(m["S"]), directed=False, **self.ctor_kw(m))


class ESCNSpec(ClimateSpec):
    name = "EventSeriesClimateNetwork"

    def cls(self):
        from pyunicorn.climate.eventseries_climatenetwork import \
            EventSeriesClimateNetwork
        return EventSeriesClimateNetwork

    def gen_model(self, r):
        n = r.randrange(3, 7)
        T = r.randrange(20, 40)
        return {"n": n, "directed": False, "A": None, "A_assigned": False,
                "w": "default", "attrs": {},
                "grid": {"n": n, "s": r.randrange(10 ** 9), "T": T},
                "E": {"k": "events", "T": T, "n": n, "p": 0.25,
                      "s": r.randrange(10 ** 9)},
                "method": r.choice(("ES", "ECA")), "taumax": 3.0,
                "sym": r.choice(("mean", "max")),
                "thr": 0, "rho": None, "non_local": False, "nwt": "surface"}

    def construct(self, m):
        from pyunicorn.climate.climate_data import ClimateData
        data = ClimateData(observable=mat(m["E"]).astype(float),
                           grid=geo_grid(m["grid"]), time_cycle=12,
                           silence_level=3)
        return self.cls()(data, method=m["method"], taumax=m["taumax"],
                          symmetrization=m["sym"], non_local=False,
                          node_weight_type=m["nwt"], silence_level=3)

    def post(self, obj, m):
        # the constructor always thresholds at 0: repeat the climate-level
        # setters on the fresh object, then weights and attributes
        if m["non_local"]:
            obj.set_non_local(True)
        if m["rho"] is not None:
            obj.set_link_density(m["rho"])
        elif m["thr"] != 0:
            obj.set_threshold(m["thr"])
        Spec.post(self, obj, m)


class ISRNSpec(Spec):
    name = "InterSystemRecurrenceNetwork"
    derived_A = True

    def cls(self):
        from pyunicorn.timeseries.inter_system_recurrence_network import \
            InterSystemRecurrenceNetwork
        return InterSystemRecurrenceNetwork

    def gen_model(self, r):
        Tx, Ty = r.randrange(8, 14), r.randrange(8, 14)
        m = {"n": Tx + Ty, "directed": False, "A": None, "A_assigned": False,
             "w": "default", "attrs": {},
             "x": {"k": "series1", "T": Tx, "s": r.randrange(10 ** 9)},
             "y": {"k": "series1", "T": Ty, "s": r.randrange(10 ** 9)}}
        self._crit(r, m)
        # sometimes already in the kernels' dtype, sometimes normalised
        dt = r.choice((None, None, "float32"))
        m["x"]["dt"] = m["y"]["dt"] = dt
        m["normalize"] = r.random() < 0.3
        return m

    @staticmethod
    def _crit(r, m):
        if r.random() < 0.5:
            m["crit"], m["cv"] = "threshold", [r.choice((0.3, 0.8, 1.5))
                                               for _ in range(3)]
        else:
            m["crit"], m["cv"] = "recurrence_rate", [
                r.choice((0.1, 0.3, 0.5)) for _ in range(3)]

    def construct(self, m):
        return self.cls()(mat(m["x"]), mat(m["y"]), silence_level=3,
                          normalize=bool(m.get("normalize")),
                          **{m["crit"]: tuple(m["cv"])})

    def mutators(self):
        out = []
        for c, setter in (("threshold", "set_fixed_threshold"),
                          ("recurrence_rate", "set_fixed_recurrence_rate")):
            def gen(r, m, c=c):
                mm = {}
                while True:
                    ISRNSpec._crit(r, mm)
                    if mm["crit"] == c:
                        return {"c": c, "v": mm["cv"]}

            def app(obj, a, m, setter=setter):
                getattr(obj, setter)(tuple(a["v"]))

            def upd(m, a, obj):
                m["crit"], m["cv"] = a["c"], a["v"]
                # the new matrix is installed through the adjacency setter:
                # the embedded graph (link attributes) is rebuilt, the node
                # weights stay
                m["A_assigned"], m["A"], m["attrs"] = False, None, {}
            out.append(Mut(setter, gen, app, upd, True))
        return list(NET_MUTS) + out


class RPSpec(Spec):
    name = "RecurrencePlot"
    family = "rp"
    net_level = False
    crit = ("threshold", "threshold_std", "recurrence_rate",
            "local_recurrence_rate", "adaptive_neighborhood_size")

    def cls(self):
        from pyunicorn.timeseries.recurrence_plot import RecurrencePlot
        return RecurrencePlot

    def gen_model(self, r):
        T = r.randrange(12, 30)
        m = {"n": T, "x": {"k": "series1", "T": T, "s": r.randrange(10 ** 9),
                           # sometimes already in the kernels' dtype
                           "dt": r.choice((None, None, "float32"))},
             "metric": r.choice(("supremum", "euclidean", "manhattan")),
             "dim": r.choice((None, 2, 3)), "tau": 1,
             "emb": None, "normalize": r.random() < 0.3}
        self._crit(r, m)
        if m["dim"]:
            m["n"] = T - (m["dim"] - 1) * m["tau"]
        # sequential ("sparse") RQA: no recurrence matrix is stored, the
        # line distributions are computed from embedding and threshold
        if self.name == "RecurrencePlot" and r.random() < 0.25:
            m["sparse"] = True
            m["metric"] = "supremum"
            m["crit"], m["cv"] = "threshold", r.choice((0.3, 0.8, 1.5))
        return m

    @staticmethod
    def _crit(r, m, names=None):
        c = r.choice(names or RPSpec.crit)
        v = {"threshold": r.choice((0.3, 0.8, 1.5)),
             "threshold_std": r.choice((0.3, 0.8)),
             "recurrence_rate": r.choice((0.1, 0.3, 0.5)),
             "local_recurrence_rate": r.choice((0.2, 0.4)),
             "adaptive_neighborhood_size": r.choice((2, 3))}[c]
        m["crit"], m["cv"] = c, v

    def kw(self, m):
        kw = {m["crit"]: m["cv"], "metric": m["metric"], "silence_level": 3}
        if m.get("normalize"):
            kw["normalize"] = True
        if m.get("sparse"):
            kw["sparse_rqa"] = True
        if m.get("dim"):
            kw.update(dim=m["dim"], tau=m["tau"])
        return kw

    def construct(self, m):
        obj = self.cls()(mat(m["x"]), **self.kw(m))
        return obj

    SETTERS = {"threshold": "set_fixed_threshold",
               "threshold_std": "set_fixed_threshold_std",
               "recurrence_rate": "set_fixed_recurrence_rate",
               "local_recurrence_rate": "set_fixed_local_recurrence_rate",
               "adaptive_neighborhood_size":
                   "set_adaptive_neighborhood_size"}

    def post(self, obj, m):
        # the recurrence matrix belongs to the embedding that was in place
        # when the criterion was last set: same order on the twin
        if m.get("R_emb") is not None:
            obj.embedding = mat(m["R_emb"])
            getattr(obj, self.SETTERS[m["crit"]])(m["cv"])
        if m.get("emb") is not None and m.get("emb") != m.get("R_emb"):
            obj.embedding = mat(m["emb"])

    def emb_mut(self):
        def upd(m, a, obj):
            m["emb"] = a["E"]
        return Mut("embedding=", lambda r, m: {
            "E": {"k": "series", "T": m["n"], "n": r.choice((1, 2)),
                  "s": r.randrange(10 ** 9)}},
            lambda obj, a, m: setattr(obj, "embedding", mat(a["E"])), upd)

    def crit_muts(self, names=None):
        out = []
        setters = {"threshold": "set_fixed_threshold",
                   "threshold_std": "set_fixed_threshold_std",
                   "recurrence_rate": "set_fixed_recurrence_rate",
                   "local_recurrence_rate": "set_fixed_local_recurrence_rate",
                   "adaptive_neighborhood_size":
                       "set_adaptive_neighborhood_size"}
        for c in (names or self.crit):
            def gen(r, m, c=c):
                mm = {}
                RPSpec._crit(r, mm, (c,))
                return {"c": c, "v": mm["cv"]}

            def app(obj, a, m, c=c):
                getattr(obj, setters[c])(a["v"])

            def upd(m, a, obj):
                m["crit"], m["cv"] = a["c"], a["v"]
                m["R_emb"] = m.get("emb")
                if "A" in m:
                    _reinit_update(m)
            out.append(Mut(setters[c], gen, app, upd, True))
        return out

    def mutators(self):
        def upd(m, a, obj):
            m["cv"] = a["v"]
        # in sequential mode only a fixed threshold is supported; the
        # public attribute is a handle on it besides set_fixed_threshold
        attr = Mut("threshold=",
                   lambda r, m: {"v": r.choice((0.2, 0.5, 1.0, 2.0))},
                   lambda obj, a, m: setattr(obj, "threshold", a["v"]), upd,
                   when=lambda m: bool(m.get("sparse")))
        dense_only = [Mut(mu.name, mu.gen, mu.apply, mu.update, mu.reinit,
                          when=(lambda m: not m.get("sparse"))
                          if mu.name != "set_fixed_threshold"
                          else (lambda m: True))
                      for mu in self.crit_muts()]
        return dense_only + [self.emb_mut(), attr]


class RNSpec(RPSpec):
    name = "RecurrenceNetwork"
    family = "network"
    net_level = True
    derived_A = True

    def cls(self):
        from pyunicorn.timeseries.recurrence_network import RecurrenceNetwork
        return RecurrenceNetwork

    def gen_model(self, r):
        m = RPSpec.gen_model(self, r)
        m.update({"directed": m["crit"] == "local_recurrence_rate",
                  "A": None, "A_assigned": False, "w": "default",
                  "attrs": {}})
        return m

    def post(self, obj, m):
        RPSpec.post(self, obj, m)
        Spec.post(self, obj, m)

    def mutators(self):
        def upd_dir(m):
            m["directed"] = m["crit"] == "local_recurrence_rate"
        muts = []
        for mu in self.crit_muts():
            def upd(m, a, obj, mu=mu):
                mu.update(m, a, obj)
                upd_dir(m)
            muts.append(Mut(mu.name, mu.gen, mu.apply, upd, True))
        return list(NET_MUTS) + muts


class CRPSpec(RPSpec):
    name = "CrossRecurrencePlot"
    crit = ("threshold", "recurrence_rate")

    def cls(self):
        from pyunicorn.timeseries.cross_recurrence_plot import \
            CrossRecurrencePlot
        return CrossRecurrencePlot

    def gen_model(self, r):
        T = r.randrange(10, 22)
        dt = r.choice((None, None, "float32"))
        m = {"n": T, "x": {"k": "series1", "T": T, "s": r.randrange(10 ** 9),
                           "dt": dt},
             "y": {"k": "series1", "T": r.randrange(10, 22),
                   "s": r.randrange(10 ** 9), "dt": dt},
             "metric": r.choice(("supremum", "euclidean", "manhattan")),
             "dim": None, "tau": 1, "normalize": r.random() < 0.3}
        self._crit(r, m, self.crit)
        return m

    def construct(self, m):
        return self.cls()(mat(m["x"]), mat(m["y"]), **self.kw(m))

    def mutators(self):
        return self.crit_muts(self.crit)


class JRPSpec(RPSpec):
    name = "JointRecurrencePlot"
    crit = ("threshold", "threshold_std", "recurrence_rate")

    def cls(self):
        from pyunicorn.timeseries.joint_recurrence_plot import \
            JointRecurrencePlot
        return JointRecurrencePlot

    def gen_model(self, r):
        T = r.randrange(12, 24)
        dt = r.choice((None, None, "float32"))
        m = {"n": T, "x": {"k": "series1", "T": T, "s": r.randrange(10 ** 9),
                           "dt": dt},
             "y": {"k": "series1", "T": T, "s": r.randrange(10 ** 9),
                   "dt": dt},
             "metric": "supremum", "dim": None, "tau": 1,
             "lag": r.choice((0, 0, 1, -1)),
             "normalize": r.random() < 0.3}
        self._crit(r, m, self.crit)
        m["n"] = T - abs(m["lag"])
        return m

    def kw(self, m):
        kw = {m["crit"]: (m["cv"], m["cv"]), "lag": m["lag"],
              "silence_level": 3}
        if m.get("normalize"):
            kw["normalize"] = True
        return kw

    def construct(self, m):
        return self.cls()(mat(m["x"]), mat(m["y"]), **self.kw(m))

    def crit_muts(self, names=None):
        base = RPSpec.crit_muts(self, self.crit)
        out = []
        for mu in base:
            def app(obj, a, m, mu=mu):
                getattr(obj, mu.name)((a["v"], a["v"]))
            out.append(Mut(mu.name, mu.gen, app, mu.update, True))
        return out

    def mutators(self):
        return self.crit_muts()


class JRNSpec(JRPSpec):
    name = "JointRecurrenceNetwork"
    family = "network"
    net_level = True
    derived_A = True

    def cls(self):
        from pyunicorn.timeseries.joint_recurrence_network import \
            JointRecurrenceNetwork
        return JointRecurrenceNetwork

    def gen_model(self, r):
        m = JRPSpec.gen_model(self, r)
        m.update({"directed": False, "A": None, "A_assigned": False,
                  "w": "default", "attrs": {}})
        return m

    def post(self, obj, m):
        Spec.post(self, obj, m)

    def mutators(self):
        return list(NET_MUTS) + self.crit_muts()


class VGSpec(Spec):
    name = "VisibilityGraph"
    derived_A = True

    def cls(self):
        from pyunicorn.timeseries.visibility_graph import VisibilityGraph
        return VisibilityGraph

    def gen_model(self, r):
        T = r.randrange(6, 14)
        return {"n": T, "directed": False, "A": None, "A_assigned": False,
                "w": "default", "attrs": {},
                "x": {"k": "series1", "T": T, "s": r.randrange(10 ** 9)},
                "horizontal": r.random() < 0.4}

    def construct(self, m):
        return self.cls()(mat(m["x"]), horizontal=m["horizontal"],
                          silence_level=3)


class SurrSpec(Spec):
    name = "Surrogates"
    family = "surrogates"
    net_level = False
    extra_attrs = ("embedding",)

    def cls(self):
        from pyunicorn.timeseries.surrogates import Surrogates
        return Surrogates

    def gen_model(self, r):
        T = r.randrange(10, 24)
        n = r.randrange(1, 4)
        return {"n": n, "T": T,
                "X": {"k": r.choice(("series", "pseries", "pseries")),
                      "T": T, "n": n, "s": r.randrange(10 ** 9)},
                "normalized": False, "emb": None}

    def construct(self, m):
        X = _mat(m["X"]).T.copy()
        if _capture is not None:
            capture("surrogates-original-data", X)
        obj = self.cls()(X, silence_level=3)
        return obj

    def post(self, obj, m):
        if m["normalized"]:
            obj.normalize_original_data()
        if m["emb"] is not None:
            e = m["emb"]
            if e.get("norm_at_embed", m["normalized"]) != m["normalized"]:
                # embedded before the data were normalised: the embedding
                # of the un-normalised data stays in place
                raw = self.cls()(_mat(m["X"]).T.copy(), silence_level=3)
                obj.embedding = raw.embed_time_series_array(
                    raw.original_data, e["dim"], e["delay"])
            else:
                obj.embedding = obj.embed_time_series_array(
                    obj.original_data, e["dim"], e["delay"])

    def mutators(self):
        def u_n(m, a, obj):
            m["normalized"] = True

        def u_e(m, a, obj):
            m["emb"] = {"dim": a["dim"], "delay": a["delay"],
                        "norm_at_embed": m["normalized"]}

        def g_e(r, m):
            return {"dim": r.choice((1, 2, 3)), "delay": r.choice((1, 2)),
                    "thr": r.choice((0.3, 0.8))}

        def a_emb(obj, a, m):
            obj.embedding = obj.embed_time_series_array(
                obj.original_data, a["dim"], a["delay"])

        def a_ts(obj, a, m):
            # generating twin surrogates (re-)embeds the current data as a
            # side effect: a state change of the object
            np.random.seed(a["dim"] * 7 + a["delay"])
            obj.twin_surrogates(a["dim"], a["delay"], a["thr"], 2)

        def u_ts(m, a, obj):
            # the embedding belongs to the data as they are now
            m["emb"] = {"dim": a["dim"], "delay": a["delay"],
                        "norm_at_embed": m["normalized"]}
        return [
            Mut("normalize_original_data", lambda r, m: {},
                lambda obj, a, m: obj.normalize_original_data(), u_n),
            Mut("embedding=", g_e, a_emb, u_e),
            Mut("twin_surrogates", g_e, a_ts, u_ts)]


class ClimateDataSpec(Spec):
    name = "ClimateData"
    family = "data"
    net_level = False

    def cls(self):
        from pyunicorn.climate.climate_data import ClimateData
        return ClimateData

    def gen_model(self, r):
        n = r.randrange(3, 8)
        T = r.choice((24, 30, 36))
        return {"n": n, "T": T, "grid": {"n": n, "s": r.randrange(10 ** 9),
                                         "T": T},
                "X": {"k": "series", "T": T, "n": n,
                      "s": r.randrange(10 ** 9)},
                "cycle": r.choice((3, 6, 12)), "window": None}

    def construct(self, m):
        return self.cls()(observable=mat(m["X"]), grid=geo_grid(m["grid"]),
                          time_cycle=m["cycle"], window=m["window"],
                          silence_level=3)

    def post(self, obj, m):
        pass

    def mutators(self):
        def gen_w(r, m):
            t0 = r.randrange(0, m["T"] - 8)
            return {"w": {"time_min": float(t0),
                          "time_max": float(t0 + r.randrange(7, m["T"] - t0)),
                          "lat_min": 0.0, "lat_max": 0.0, "lon_min": 0.0,
                          "lon_max": 0.0}}

        def u_w(m, a, obj):
            m["window"] = a["w"]

        def u_g(m, a, obj):
            m["window"] = None
        return [Mut("set_window", gen_w,
                    lambda obj, a, m: obj.set_window(dict(a["w"])), u_w),
                Mut("set_global_window", lambda r, m: {},
                    lambda obj, a, m: obj.set_global_window(), u_g)]


class GeoGridSpec(Spec):
    name = "GeoGrid"
    family = "grid"
    net_level = False

    def cls(self):
        from pyunicorn.core.geo_grid import GeoGrid
        return GeoGrid

    def gen_model(self, r):
        n = r.randrange(3, 8)
        return {"n": n, "grid": {"n": n, "s": r.randrange(10 ** 9)}}

    def construct(self, m):
        return geo_grid(m["grid"])

    def post(self, obj, m):
        pass


class GridSpec(GeoGridSpec):
    name = "Grid"

    def cls(self):
        from pyunicorn.core.grid import Grid
        return Grid

    def construct(self, m):
        return plain_grid(m["grid"])


class EventSeriesSpec(Spec):
    name = "EventSeries"
    family = "events"
    net_level = False

    def cls(self):
        from pyunicorn.eventseries.event_series import EventSeries
        return EventSeries

    def gen_model(self, r):
        n = r.randrange(2, 5)
        return {"n": n, "E": {"k": "events", "T": r.randrange(12, 25), "n": n,
                              "p": 0.3, "s": r.randrange(10 ** 9)},
                "taumax": r.choice((2.0, 5.0)), "lag": 0.0}

    def construct(self, m):
        return self.cls()(mat(m["E"]), taumax=m["taumax"], lag=m["lag"])

    def post(self, obj, m):
        pass


class CouplingSpec(Spec):
    name = "CouplingAnalysis"
    family = "funcnet"
    net_level = False

    def cls(self):
        from pyunicorn.funcnet.coupling_analysis import CouplingAnalysis
        return CouplingAnalysis

    def gen_model(self, r):
        n = r.randrange(2, 5)
        return {"n": n, "X": {"k": "series", "T": r.randrange(30, 50), "n": n,
                              "s": r.randrange(10 ** 9)}}

    def construct(self, m):
        return self.cls()(mat(m["X"]), silence_level=3)

    def post(self, obj, m):
        pass


SPECS = [NetworkSpec(), InteractingSpec(), GeoSpec(), SpatialSpec(),
         ResSpec(), ClimateSpec(), TsonisSpec(), SpearmanSpec(),
         MutualInfoSpec(), PartialSpec(), HavlinSpec(), HilbertSpec(),
         CoupledSpec(), ESCNSpec(), ISRNSpec(),
         RPSpec(), RNSpec(), CRPSpec(), JRPSpec(),
         JRNSpec(), VGSpec(), SurrSpec(), ClimateDataSpec(), GeoGridSpec(),
         GridSpec(), EventSeriesSpec(), CouplingSpec()]
BY_NAME = {s.name: s for s in SPECS}


def clone(m):
    return copy.deepcopy(m)
