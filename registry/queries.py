"""Discovery of query patterns by introspection.

Every public, non-static method of a class that can be called from the
argument table below is a query pattern `(name, kwargs)`.  A newly added
(cached) method is therefore covered without touching the harness.
"""
import inspect

# methods that are not queries: mutators, I/O, plotting, randomised generators
# (C15/C17), object factories needing other objects, infrastructure
DENY = {
    # mutators / state changes
    "set_edge_list", "set_link_attribute", "del_link_attribute",
    "set_node_attribute", "del_node_attribute", "set_node_weight_type",
    "set_threshold", "set_link_density", "set_non_local", "set_winter_only",
    "set_max_delay", "set_directed", "set_window", "set_global_window",
    "set_fixed_threshold", "set_fixed_threshold_std",
    "set_fixed_recurrence_rate", "set_fixed_local_recurrence_rate",
    "set_adaptive_neighborhood_size", "update_resistances",
    "update_admittance", "update_R", "normalize_original_data",
    "set_silence_level", "clear_cache", "cache_clear", "clear_paths_cache",
    "clear_link_attribute", "set_random_links_by_distance",
    "randomly_rewire", "randomly_rewire_geomodel_I",
    "randomly_rewire_geomodel_II", "randomly_rewire_geomodel_III",
    # I/O, plotting, printing
    "save", "save_for_cgv", "print_data_info", "print_boundaries",
    "print_grid_size",
    # randomised (C15 / C17 territory)
    "white_noise_surrogates", "correlated_noise_surrogates",
    "AAFT_surrogates", "refined_AAFT_surrogates", "twin_surrogates",
    "shuffled_anomaly", "resample_diagline_dist", "resample_vertline_dist",
    "test_threshold_significance", "original_distribution",
    "event_analysis_significance",
    # bookkeeping accessors (judged by neither C01 nor C06, DESIGN §4 C01.3)
    "find_link_attribute", "node_attribute", "link_attribute",
    "average_link_attribute",
    # need another object / callables / not a measure
    "hamming_distance_from", "method", "copy", "permuted_copy",
    "splitted_copy", "undirected_copy", "subnetwork", "distance_matrix",
    # ARPACK start vectors make these differ between identical calls (and
    # arbitrarily so on degenerate spectra): not judged (DESIGN §3.3)
    "eigenvector_centrality", "nsi_eigenvector_centrality",
}

# values for parameters, by parameter name; "@x" entries are resolved against
# the model at call time (registry.specs.resolve_arg)
REQUIRED = {
    "order": [3],
    "sources": ["@half1"], "targets": ["@half2"],
    "nodes1": ["@half1"], "nodes2": ["@half2"],
    "node_list1": ["@half1"], "node_list2": ["@half2"],
    "node_list": ["@half1"], "nodes": ["@half1"],
    "n_bins": [12], "a": [0], "b": [1], "i": [1],
    "node": [0], "node1": [0], "node2": [2],
    "selected_phases": [[0]], "selected_months": [[0, 1]],
    "sequence": ["@range"], "link_attribute": ["@attr"],
    "attribute_name": ["@attr"], "attribute": ["@attr"],
    "M": [5], "lag": [1], "threshold": [0.5], "min_dist": [2],
    "dim": [2], "embedding": [None], "interval": [None],
    "metric": ["euclidean"], "link_density": [0.4],
    "subnetwork1": ["@half1"], "subnetwork2": ["@half2"],
    "subnetwork": ["@half1"], "internal": ["@half1"],
}
VARIANTS = {
    "key": ["@attr"], "link_attribute": ["@attr"], "attribute": ["@attr"],
    "typical_weight": [2.0], "direction": ["in"], "estimate": [],
    "add_local_ends": [True], "exclude_neighbors": [False],
    "stopping_mode": ["twinness"], "geometry_corrected": [True],
    "l_min": [3], "v_min": [3], "w_min": [2], "lag": [1],
    "normalize": [False], "only_connected": [False],
    "replace_inf_by": [99.0], "use_directed": [False],
    "sources": ["@half1"], "targets": ["@half2"], "nsi": [False],
    "method": ["ECA"], "symmetrization": ["mean", "max", "min"],
    "window_type": ["retarded"],
    "tau_max": [2], "estimator": ["binning", "gauss"], "lag_mode": ["all"],
    "cond_mode": ["mit"], "min_dist": [1],
}


def discover(cls, deny_extra=()):
    """Sorted list of (name, kwargs) query patterns of `cls`."""
    out = []
    for name in sorted(dir(cls)):
        if name.startswith("_") or name in DENY or name in deny_extra:
            continue
        static = inspect.getattr_static(cls, name)
        if isinstance(static, (staticmethod, classmethod, property)):
            continue
        f = getattr(cls, name)
        if not callable(f) or inspect.isclass(f):
            continue
        try:
            sig = inspect.signature(f)
        except (TypeError, ValueError):
            continue
        params = [p for p in list(sig.parameters.values())[1:]
                  if p.kind in (p.POSITIONAL_OR_KEYWORD, p.KEYWORD_ONLY)]
        base = {}
        ok = True
        for p in params:
            if p.default is inspect.Parameter.empty:
                if p.name not in REQUIRED:
                    ok = False
                    break
                base[p.name] = REQUIRED[p.name][0]
        if not ok:
            continue
        out.append((name, dict(base)))
        for p in params:
            if p.default is inspect.Parameter.empty:
                continue
            for v in VARIANTS.get(p.name, []):
                kw = dict(base)
                kw[p.name] = v
                out.append((name, kw))
    return out


SUMMARY_ATTRS = ("N", "n_links", "link_density", "total_node_weight",
                 "mean_node_weight", "directed")
