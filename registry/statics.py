"""Public static helpers and methods that take caller-supplied arrays as
*arguments* (C06: "never alters arrays ... supplied by the caller unless the
method is documented as in-place").

Each entry: label -> (resolver, argument builder, documented_in_place,
deterministic).  The builder gets a random.Random and returns (args, kwargs);
arrays come in varying dtype and memory layout, because defensive copies
often exist only for the conversions the code happens to need.
"""
import numpy as np

from models import graphs as G


def _arr(r, shape, kind="float", dt=None, order=None, positive=False):
    n = int(np.prod(shape))
    if kind == "int":
        a = np.array([r.randrange(0, 9) for _ in range(n)]).reshape(shape)
    elif kind == "bin":
        a = np.array([1 if r.random() < 0.3 else 0
                      for _ in range(n)]).reshape(shape)
    else:
        a = np.array([round(r.uniform(0.1 if positive else -3, 3), 3)
                      for _ in range(n)]).reshape(shape)
    a = a.astype(dt or r.choice(("float64", "float64", "float32")
                                if kind == "float" else ("int64", "int32")))
    if (order or r.choice(("C", "C", "F"))) == "F" and a.ndim == 2:
        a = np.asfortranarray(a)
    return a


def _cls(path):
    def resolve():
        import importlib
        mod, name = path.rsplit(".", 1)
        return getattr(importlib.import_module(mod), name)
    return resolve


DATA = "pyunicorn.core.data.Data"
RP = "pyunicorn.timeseries.recurrence_plot.RecurrencePlot"
SUR = "pyunicorn.timeseries.surrogates.Surrogates"
CA = "pyunicorn.funcnet.coupling_analysis.CouplingAnalysis"
RAIN = "pyunicorn.climate.rainfall.RainfallClimateNetwork"
SPEAR = "pyunicorn.climate.spearman.SpearmanClimateNetwork"
ES = "pyunicorn.eventseries.event_series.EventSeries"
GRID = "pyunicorn.core.grid.Grid"
GGRID = "pyunicorn.core.geo_grid.GeoGrid"
GNET = "pyunicorn.core.geo_network.GeoNetwork"
NET = "pyunicorn.core.network.Network"


def _static(owner, name):
    def resolve():
        return getattr(_cls(owner)(), name)
    return resolve


def _T(r):
    return r.randrange(8, 20)


STATICS = {
    "Data.rescale": (_static(DATA, "rescale"), lambda r: (
        [_arr(r, (_T(r), 3), dt="float64"),
         r.choice(("float64", "float32", "int32", "int16", "uint8"))], {}),
        False, True),
    "Data.normalize_time_series_array": (
        _static(DATA, "normalize_time_series_array"),
        lambda r: ([_arr(r, (_T(r), 3), dt="float64")], {}), True, True),
    "Data.zero_pad_data": (_static(DATA, "zero_pad_data"), lambda r: (
        [_arr(r, (_T(r), 3))], {}), False, True),
    "Data.cos_window": (_static(DATA, "cos_window"), lambda r: (
        [_arr(r, (_T(r), 3)), 0.2], {}), False, True),
    "RecurrencePlot.normalize_time_series": (
        _static(RP, "normalize_time_series"),
        lambda r: ([_arr(r, (_T(r), 2), dt="float32")], {}), True, True),
    "RecurrencePlot.embed_time_series": (
        _static(RP, "embed_time_series"),
        lambda r: ([_arr(r, (_T(r),)), 2, 1], {}), False, True),
    "RecurrencePlot.legendre_coordinates": (
        _static(RP, "legendre_coordinates"),
        lambda r: ([_arr(r, (25,), dt="float64")], {"dim": 2, "tau_w": 3}),
        False, True),
    "RecurrencePlot.threshold_from_recurrence_rate": (
        _static(RP, "threshold_from_recurrence_rate"),
        lambda r: ([_arr(r, (8, 8), positive=True), 0.3], {}), False, True),
    "RecurrencePlot.threshold_from_recurrence_rate_fast": (
        _static(RP, "threshold_from_recurrence_rate_fast"),
        lambda r: ([_arr(r, (8, 8), positive=True), 0.3, 10], {}),
        False, False),
    "RecurrencePlot.bootstrap_distance_matrix": (
        _static(RP, "bootstrap_distance_matrix"),
        lambda r: ([_arr(r, (12, 2)), "supremum", 8], {}), False, False),
    "RecurrencePlot.rejection_sampling": (
        _static(RP, "rejection_sampling"),
        lambda r: ([_arr(r, (9,), positive=True), 20], {}), False, False),
    "Surrogates.embed_time_series_array": (
        _static(SUR, "embed_time_series_array"),
        lambda r: ([_arr(r, (2, _T(r)), order="C"), 2, 1], {}), False, True),
    "Surrogates.recurrence_plot": (
        _static(SUR, "recurrence_plot"),
        lambda r: ([_arr(r, (10, 2), order="C"), 0.8], {"silence_level": 3}),
        False, True),
    "Surrogates.test_pearson_correlation": (
        _static(SUR, "test_pearson_correlation"),
        lambda r: ([_arr(r, (3, 12), order="C"), _arr(r, (3, 12), order="C")],
                   {}), False, True),
    "Surrogates.test_mutual_information": (
        _static(SUR, "test_mutual_information"),
        lambda r: ([_arr(r, (3, 12), order="C"), _arr(r, (3, 12), order="C")],
                   {"n_bins": 4}), False, True),
    "CouplingAnalysis.get_nearest_neighbors": (
        _static(CA, "get_nearest_neighbors"),
        lambda r: ([_arr(r, (3, 14), order="C"), np.array([0, 1, 2]), 3],
                   {"standardize": r.random() < 0.5}), False, False),
    "CouplingAnalysis.bincount_hist": (
        _static(CA, "bincount_hist"),
        lambda r: ([_arr(r, (2, 2, 14), kind="int", dt="int32")], {}),
        False, True),
    "RainfallClimateNetwork.calculate_rainfall": (
        _static(RAIN, "calculate_rainfall"),
        lambda r: ([_arr(r, (3, _T(r))), 0.5, r.choice((0.0, 1.0, 1e-7))],
                   {}), False, True),
    "RainfallClimateNetwork.calculate_top_events": (
        _static(RAIN, "calculate_top_events"),
        lambda r: ([_arr(r, (3, _T(r)), positive=True), (0.5, 1.0)], {}),
        False, True),
    "RainfallClimateNetwork.rank_time_series": (
        _static(RAIN, "rank_time_series"),
        lambda r: ([_arr(r, (3, _T(r)))], {}), False, True),
    "SpearmanClimateNetwork.rank_time_series": (
        _static(SPEAR, "rank_time_series"),
        lambda r: ([_arr(r, (_T(r), 3))], {}), False, True),
    "EventSeries.make_event_matrix": (
        _static(ES, "make_event_matrix"),
        lambda r: ([_arr(r, (_T(r), 3))],
                   {"threshold_method": "quantile", "threshold_values": 0.7,
                    "threshold_types": "above"}), False, True),
    "EventSeries.event_synchronization": (
        _static(ES, "event_synchronization"),
        lambda r: ([_arr(r, (20,), kind="bin", dt="int64"),
                    _arr(r, (20,), kind="bin", dt="int64")],
                   {"taumax": 3.0}), False, True),
    "EventSeries.event_coincidence_analysis": (
        _static(ES, "event_coincidence_analysis"),
        lambda r: ([_arr(r, (20,), kind="bin", dt="int64"),
                    _arr(r, (20,), kind="bin", dt="int64"), 3.0], {}),
        False, True),
    "Grid.coord_sequence_from_rect_grid": (
        _static(GRID, "coord_sequence_from_rect_grid"),
        lambda r: ([_arr(r, (2, 4), order="C")], {}), False, True),
    "GeoGrid.coord_sequence_from_rect_grid": (
        _static(GGRID, "coord_sequence_from_rect_grid"),
        lambda r: ([_arr(r, (3,)), _arr(r, (4,))], {}), False, True),
    "GeoNetwork.latlon2cartesian": (
        _static(GNET, "latlon2cartesian"),
        lambda r: ([_arr(r, (5,)), _arr(r, (5,))], {}), False, True),
    "Network.weighted_local_clustering": (
        _static(NET, "weighted_local_clustering"),
        lambda r: ([G.sym_matrix(5, r.randrange(10 ** 6))], {}),
        False, True),
}


def geogrid_region_case(r):
    """GeoGrid.region_indices(region): a method with a caller array as
    argument; the grid may have only non-negative longitudes."""
    from pyunicorn.core.geo_grid import GeoGrid
    n = 6
    pos = r.random() < 0.6
    lon = [round(r.uniform(0 if pos else -170, 350 if pos else 170), 1)
           for _ in range(n)]
    lat = [round(r.uniform(-60, 60), 1) for _ in range(n)]
    grid = GeoGrid(np.arange(4.0), np.array(lat), np.array(lon),
                   silence_level=2)
    region = np.array([-20.0, -30.0, 120.0, -30.0, 120.0, 40.0, -20.0, 40.0])
    return grid.region_indices, [region], {}
