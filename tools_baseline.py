"""Run the pinned baseline suite (guard off, there are no hooks) and compare
with /root/.vp/BASELINE.json's stable_pass list."""
import json, subprocess, sys, xml.etree.ElementTree as ET, os
out = "/var/tmp/pyunicorn-baseline.junit.xml"
cmd = ("cd /repo && /venv/bin/python -m pytest -ra -q -p no:cacheprovider --timeout=900 "
       f"--continue-on-collection-errors --junitxml={out}")
r = subprocess.run(["timeout", "3000", "bash", "-c", cmd], stdout=subprocess.PIPE, stderr=subprocess.STDOUT, text=True)
print(r.stdout.splitlines()[-1])
base = json.load(open("/root/.vp/BASELINE.json"))
want = set(base["stable_pass"])
passed = set()
for tc in ET.parse(out).getroot().iter("testcase"):
    if not any(ch.tag in ("failure", "error", "skipped") for ch in tc):
        passed.add(f"{tc.get('classname')}::{tc.get('name')}")
missing = sorted(want - passed)
print(f"stable_pass={len(want)} passed_now={len(passed)} missing={len(missing)}")
for m in missing[:20]:
    print("  MISSING", m)
os.remove(out)
sys.exit(1 if missing else 0)
