#!/bin/bash
# refresh the stable dev copy from /repo's committed HEAD (not the working tree)
rm -rf /var/tmp/repo-dev/src && mkdir -p /var/tmp/repo-dev && git -C /repo archive HEAD src setup.py setup.cfg pyproject.toml MANIFEST.in | tar -x -C /var/tmp/repo-dev
