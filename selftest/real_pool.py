"""Stub validation for C19: a few *real* multiprocessing ('spawn') pool calls
of nsi_betweenness(parallelize=True), compared with the serial result.
Must be an importable file with a __main__ guard (spawn re-imports it).
usage: python selftest/real_pool.py <built src dir>
prints one JSON line: {"calls": n, "max_rel_dev": x, "ok": bool}
"""
import json
import os
import sys


def main():
    src = sys.argv[1]
    sys.path.insert(0, src)
    sys.path.insert(0, os.path.dirname(os.path.dirname(os.path.abspath(
        __file__))))
    os.environ["OMP_NUM_THREADS"] = "1"
    import numpy as np
    from pyunicorn.core.network import Network
    from models import graphs as G
    worst = 0.0
    calls = 0
    for (sizes, iso, gs, ws) in (([13, 7], 1, 11, 5), ([25], 0, 12, None),
                                 ([5, 5, 9], 2, 13, 6)):
        A = G.components_graph(sizes, 0.3, gs, iso)
        n = A.shape[0]
        w = None if ws is None else G.weights(n, ws)
        ser = Network(adjacency=A, node_weights=w,
                      silence_level=3).nsi_betweenness(parallelize=False)
        par = Network(adjacency=A, node_weights=w,
                      silence_level=3).nsi_betweenness(parallelize=True)
        calls += 1
        dev = float(np.max(np.abs(par - ser) / np.maximum(np.abs(ser),
                                                         1e-12)))
        worst = max(worst, dev)
    print(json.dumps({"calls": calls, "max_rel_dev": worst,
                      "ok": worst < 1e-10}))


if __name__ == "__main__":
    main()
