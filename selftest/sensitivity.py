"""Sensitivity self-test: break a property on purpose in a scratch copy of
/repo's working tree, run the quick check against it (VERIF_REPO), expect
exit 1 with a VIOLATION line; remove the scratch copy.

usage: /venv/bin/python selftest/sensitivity.py [PID ...] [--only name] [--budget S]
"""
import json
import os
import shutil
import subprocess
import sys
import time

HERE = os.path.dirname(os.path.abspath(__file__))
VERIF = os.path.dirname(HERE)
sys.path.insert(0, VERIF)
from selftest.mutants import MUTANTS  # noqa: E402

SCRATCH = "/var/tmp/pyunicorn-verif-mut"
BASE = os.environ.get("VERIF_BASE", "/repo")


def make_copy(name):
    d = os.path.join(SCRATCH, name)
    shutil.rmtree(d, ignore_errors=True)
    os.makedirs(d)
    subprocess.run(["rsync", "-a", "--exclude", "*.so", "--exclude",
                    "__pycache__", "--exclude", "build", "--exclude",
                    "*.egg-info", BASE + "/src", d + "/"], check=True)
    for f in ("setup.py", "setup.cfg", "pyproject.toml", "MANIFEST.in",
              "README.rst", "LICENSE.txt"):
        if os.path.exists(BASE + "/" + f):
            shutil.copy2(BASE + "/" + f, d)
    return d


def apply(d, edits):
    for rel, old, new in edits:
        p = os.path.join(d, rel)
        s = open(p).read()
        if s.count(old) < 1:
            raise SystemExit(f"mutant text not found in {rel}: {old[:60]!r}")
        open(p, "w").write(s.replace(old, new, 1))


def main(argv):
    pids = [a.upper() for a in argv if not a.startswith("--")
            and a.upper().startswith("C")]
    only = None
    budget = None
    if "--only" in argv:
        only = argv[argv.index("--only") + 1]
    if "--budget" in argv:
        budget = argv[argv.index("--budget") + 1]
    rows = []
    for mu in MUTANTS:
        if pids and mu["property"] not in pids:
            continue
        if only and mu["name"] != only:
            continue
        d = make_copy(mu["name"])
        try:
            apply(d, mu["edits"])
            env = dict(os.environ, VERIF_REPO=d, VERIF_MINIMISE_N="1",
                       VERIF_EVIDENCE_DIR=os.path.join(d, "evidence"),
                       VERIF_REPLAY_DIR=os.path.join(d, "replays"))
            if budget:
                env["VERIF_BUDGET_S"] = budget
            t0 = time.time()
            r = subprocess.run(["./check", mu["property"], "quick"],
                               cwd=VERIF, env=env, stdout=subprocess.PIPE,
                               stderr=subprocess.PIPE, text=True)
            caught = r.returncode == 1 and "VIOLATION property=" in r.stdout
            sig = [l for l in r.stdout.splitlines()
                   if l.startswith("violation detail")]
            rows.append({"mutant": mu["name"], "property": mu["property"],
                         "caught": caught, "rc": r.returncode,
                         "wall_s": round(time.time() - t0, 1),
                         "signature": sig[:1]})
            print(json.dumps(rows[-1]), flush=True)
            if not caught:
                print(r.stdout[-1500:], r.stderr[-1500:], flush=True)
        finally:
            shutil.rmtree(d, ignore_errors=True)
    shutil.rmtree(SCRATCH, ignore_errors=True)
    # the evidence of these mutant runs was written under the mutant tree's
    # name; restore nothing here -- callers re-run the real check afterwards.
    miss = [r for r in rows if not r["caught"]]
    print(f"{len(rows) - len(miss)}/{len(rows)} mutants caught")
    return 1 if miss else 0


if __name__ == "__main__":
    sys.exit(main(sys.argv[1:]))
