"""Hand-written sensitivity mutants: (file relative to the repo root, old, new)."""
NW = "src/pyunicorn/core/network.py"
MPI = "src/pyunicorn/utils/mpi.py"
CPYX = "src/pyunicorn/core/_ext/numerics.pyx"
RN = "src/pyunicorn/core/resistive_network.py"
CN = "src/pyunicorn/climate/climate_network.py"
DT = "src/pyunicorn/core/data.py"
CD = "src/pyunicorn/climate/climate_data.py"
GN = "src/pyunicorn/core/geo_network.py"
SU = "src/pyunicorn/timeseries/surrogates.py"
TPYX = "src/pyunicorn/timeseries/_ext/numerics.pyx"
RP = "src/pyunicorn/timeseries/recurrence_plot.py"

MUTANTS = [
 {"name": "c19_newman_last_chunk_short", "property": "C19", "edits": [
   (NW, """                        end_i = min((index + 1) * step, N)
                        if start_i >= end_i:
                            break
                        this_A = A[start_i:end_i, :]
                        # submit the job""", """                        end_i = min((index + 1) * step, N - 1)
                        if start_i >= end_i:
                            break
                        this_A = A[start_i:end_i, :]
                        # submit the job""")]},
 {"name": "c19_kernel_relative_index", "property": "C19", "edits": [
   (CPYX, """        i_abs = i_rel + start_i
        for j in range(N):
             if this_A[i_rel, j]:
                sum_j = 0.0
                for s in range(N):
                    if this_not_adj_or_equal[i_rel, s]:""", """        i_abs = i_rel
        for j in range(N):
             if this_A[i_rel, j]:
                sum_j = 0.0
                for s in range(N):
                    if this_not_adj_or_equal[i_rel, s]:""")]},
 {"name": "c19_slave_queue_not_popped", "property": "C19", "edits": [
   (MPI, "        slave_queue[source].remove(id)\n", "")]},
 {"name": "c19_recv_any_source", "property": "C19", "edits": [
   (MPI, "(result, this_stats) = comm.recv(source=source)",
         "(result, this_stats) = comm.recv()")]},
 {"name": "c19_pool_drops_last_target", "property": "C19", "edits": [
   (NW, "batches = np.array_split(targets, n_workers)",
        "batches = np.array_split(targets[:-1], n_workers)")]},
 {"name": "c19_pool_first_batch_only", "property": "C19", "edits": [
   (NW, "betw_w = np.sum(pool.map(worker, batches), axis=0)",
        "betw_w = pool.map(worker, batches)[0]")]},
 {"name": "c19_arenas_overwrite_not_sum", "property": "C19", "edits": [
   (NW, """                        this_betweenness, start_i, end_i = result
                        component_betweenness += this_betweenness
                else:""", """                        this_betweenness, start_i, end_i = result
                        component_betweenness = this_betweenness
                else:""")]},
 {"name": "c18_er_sign", "property": "C18", "edits": [
   (RN, "return R[a, a] - R[a, b] - R[b, a] + R[b, b]",
        "return R[a, a] - R[a, b] + R[b, a] + R[b, b]")]},
 {"name": "c18_update_without_R", "property": "C18", "edits": [
   (RN, """        # and update R
        self.update_R()

        # stored""", """        # and update R
        if self.sparse_R is None:
            self.update_R()

        # stored""")]},
 {"name": "c18_admittance_not_inverted", "property": "C18", "edits": [
   (RN, "                1./self.resistances[edge[0], edge[1]]",
        "                self.resistances[edge[0], edge[1]]")]},
 {"name": "c18_diameter_cache_not_cleared", "property": "C18", "edits": [
   (RN, """        # stored effective resistances are no longer valid
        self._effective_resistances = None
""", "")]},
 {"name": "c18_vcfb_includes_endpoint", "property": "C18", "edits": [
   ("src/pyunicorn/core/_ext/src_numerics.c", "if(i == t || i == s){", "if(i == t){")]},
 {"name": "c09_distance_weights_keyed_by_id", "property": "C09", "edits": [
   # state kept across objects in one process: only the history replay
   # reproduces it
   (CN, "class ClimateNetwork(GeoNetwork):", "_distance_weights = {}\n\n\nclass ClimateNetwork(GeoNetwork):"),
   (CN, """        weighted_similarity = similarity_measure * \\
            (0.5 * (np.tanh(a * (self.grid.angular_distance() - d_min)) + 1))
""", """        key = (id(self.grid), a, d_min)
        if key not in _distance_weights:
            _distance_weights[key] = 0.5 * (np.tanh(
                a * (self.grid.angular_distance() - d_min)) + 1)
        weighted_similarity = similarity_measure * _distance_weights[key]
""")]},
 {"name": "c09_ge_threshold", "property": "C09", "edits": [
   (CN, "A[similarity_measure > threshold] = 1", "A[similarity_measure >= threshold] = 1")]},
 {"name": "c09_keep_diagonal", "property": "C09", "edits": [
   (CN, "        A.flat[::N+1] = 0\n", "")]},
 {"name": "c09_density_complement", "property": "C09", "edits": [
   (CN, "int((1-link_density) * (len(flat_corr)-self.N))", "int(link_density * (len(flat_corr)-self.N))")]},
 {"name": "c09_non_local_no_regeneration", "property": "C09", "edits": [
   (CN, """            self._non_local = non_local
            #  Regenerate the climate network using the new setting
            self.set_threshold(self.threshold())""", """            self._non_local = non_local""")]},
 {"name": "c09_no_abs", "property": "C09", "edits": [
   (CN, 'np.abs(similarity_measure.astype("float32"))', 'similarity_measure.astype("float32")')]},
 {"name": "c09_density_includes_diagonal", "property": "C09", "edits": [
   (CN, "int((1-link_density) * (len(flat_corr)-self.N))", "int((1-link_density) * len(flat_corr))")]},
 {"name": "c09_non_local_compares_identity", "property": "C09", "edits": [
   (CN, "if self.non_local() != non_local:", "if self.non_local() is not non_local and non_local:")]},
 {"name": "c13_time_max_open", "property": "C13", "edits": [
   (DT, '(full_time <= window["time_max"])', '(full_time < window["time_max"])')]},
 {"name": "c13_window_counter_not_bumped", "property": "C13", "edits": [
   (CD, """        Data.set_window(self, window)
        # invalidate cache
        self._mut_window += 1""", """        Data.set_window(self, window)""")]},
 {"name": "c13_phase_mean_stride", "property": "C13", "edits": [
   (CD, "phase_mean[i, :] = observable[i::time_cycle, :].mean(axis=0)",
        "phase_mean[i, :] = observable[i::time_cycle+1, :].mean(axis=0)")]},
 {"name": "c13_lon_min_open", "property": "C13", "edits": [
   (DT, '(full_lon_seq >= window["lon_min"])', '(full_lon_seq > window["lon_min"])')]},
 {"name": "c13_global_keeps_observable", "property": "C13", "edits": [
   (DT, """        self._observable = \\
            self._full_observable[time_indices, :][:, space_indices]""",
        """        if not time_indices.all() or not space_indices.all():
            self._observable = \\
                self._full_observable[time_indices, :][:, space_indices]""")]},
 {"name": "c13_anomaly_in_place_on_view", "property": "C13", "edits": [
   (CD, "        anomaly = np.zeros(observable.shape)\n", "        anomaly = observable\n")]},
 {"name": "c01_counter_reset_on_reinit", "property": "C01", "edits": [
   (NW, 'self._mut_A: int = getattr(self, "_mut_A", 0)', 'self._mut_A: int = 0')]},
 {"name": "c01_degree_without_la", "property": "C01", "edits": [
   (NW, """    @Cached.method(attrs=("_mut_la",))
    def degree(self, key=None):""", """    @Cached.method()
    def degree(self, key=None):""")]},
 {"name": "c01_path_lengths_without_la", "property": "C01", "edits": [
   (NW, '@Cached.method(name="path lengths", attrs=("_mut_la",))', '@Cached.method(name="path lengths")')]},
 {"name": "c01_geo_weights_bypass_setter", "property": "C01", "edits": [
   (GN, """        if node_weight_type == "surface":
            self.node_weights = self.grid.cos_lat()""", """        if node_weight_type == "surface":
            self._node_weights = self.grid.cos_lat()""")]},
 {"name": "c01_rn_cache_state_plot_only", "property": "C01", "edits": [
   ("src/pyunicorn/timeseries/recurrence_network.py", "        return RecurrencePlot.__cache_state__(self) + net_state", "        return RecurrencePlot.__cache_state__(self)")]},
 {"name": "c01_R_setter_no_bump", "property": "C01", "edits": [
   (RP, """        self._R = R
        # invalidate cache
        self._mut_R += 1""", """        self._R = R""")]},
 {"name": "c01_nw_counter_not_bumped", "property": "C01", "edits": [
   (NW, """        self.total_node_weight = w.sum()

        # invalidate cache
        self._mut_nw += 1""", """        self.total_node_weight = w.sum()""")]},
 {"name": "c01_la_counter_not_bumped_on_set", "property": "C01", "edits": [
   (NW, """            e[attribute_name] = values[e.tuple]
        # invalidate cache
        self._mut_la += 1
""", """            e[attribute_name] = values[e.tuple]
""")]},
 {"name": "c01_nsi_closeness_without_nw", "property": "C01", "edits": [
   (NW, """    @Cached.method(name="n.s.i. closeness", attrs=("_mut_nw",))""", """    @Cached.method(name="n.s.i. closeness")""")]},
 {"name": "c01_network_state_without_mutA", "property": "C01", "edits": [
   (NW, "        return (self.directed, self._mut_A,)", "        return (self.directed,)")]},
 {"name": "c01_window_counter_not_bumped", "property": "C01", "edits": [
   (CD, """        Data.set_window(self, window)
        # invalidate cache
        self._mut_window += 1""", """        Data.set_window(self, window)""")]},
 {"name": "c01_embedding_counter_not_bumped", "property": "C01", "edits": [
   (RP, """        self.N = self._embedding.shape[0]
        self._mut_embedding += 1""", """        self.N = self._embedding.shape[0]""")]},
 {"name": "c01_resistances_store_not_cleared", "property": "C01", "edits": [
   (RN, """        # stored effective resistances are no longer valid
        self._effective_resistances = None
""", "")]},
 {"name": "c01_mi_one_file_for_both", "property": "C01", "edits": [
   ("src/pyunicorn/climate/mutual_info.py", 'if self._winter_only and self.mi_file.endswith(".data"):', 'if False:')]},
 {"name": "c01_jrn_diagonal_stride", "property": "C01", "edits": [
   ("src/pyunicorn/timeseries/joint_recurrence_network.py", "        A.flat[::A.shape[0]+1] = 0\n", "        A.flat[::self.N+1] = 0\n")]},
 {"name": "c06_closeness_no_restore", "property": "C06", "edits": [
   (NW, """            #  Reverse changes to weightedPathLengths
            path_lengths[unconnected_pairs] = np.inf
""", "")]},
 {"name": "c01_query_order_apl_no_restore", "property": "C01", "edits": [
   (NW, """            #  Reverse changes to path_lengths
            path_lengths[unconnected_pairs] = np.inf
""", "")]},
 {"name": "c06_apl_no_restore", "property": "C06", "edits": [
   (NW, """            #  Reverse changes to path_lengths
            path_lengths[unconnected_pairs] = np.inf
""", "")]},
 {"name": "c06_density_threshold_sorts_in_place", "property": "C06", "edits": [
   (CN, "flat_corr = self.similarity_measure().copy()", "flat_corr = self.similarity_measure()"),
   (CN, "        flat_corr = flat_corr.flatten()\n", "        flat_corr = flat_corr.reshape(-1)\n")]},
 {"name": "c06_white_noise_no_copy", "property": "C06", "edits": [
   (SU, "surrogates = self.original_data.copy()", "surrogates = self.original_data")]},
 {"name": "c06_inv_corr_distance_in_place", "property": "C06", "edits": [
   (CN, "m = self.correlation_distance().copy()", "m = self.correlation_distance()")]},
 {"name": "c06_corr_noise_in_place", "property": "C06", "edits": [
   (SU, "surrogates = self.original_data_fft().copy()", "surrogates = self.original_data_fft()")]},
 {"name": "c06_mi_normalises_shared_anomaly", "property": "C06", "edits": [
   ("src/pyunicorn/climate/mutual_info.py", "        anomaly = anomaly.copy()\n", "")]},
 {"name": "c06_surrogates_alias_caller_array", "property": "C06", "edits": [
   (SU, "self.original_data = np.array(original_data)", "self.original_data = original_data")]},
 {"name": "c06_degree_scaled_in_place", "property": "C06", "edits": [
   (NW, """        k = to_cy(self.outdegree(), DEGREE)

        # initialize node weights""", """        k = self.outdegree()
        k *= 1
        k += (k == 0)

        # initialize node weights""")]},
 {"name": "c05_edge_list_not_symmetrised", "property": "C05", "edits": [
   (NW, """        #  Symmetrize if undirected network
        if not self.directed:
            edges = np.append(edges, edges[:, [1, 0]], axis=0)

        #  Create sparse adjacency matrix from edge list
        sp_A = sp.coo_matrix(
            (np.ones_like(edges.T[0]), tuple(edges.T)), shape=(N, N))

        #  Set sparse""", """        #  Symmetrize if undirected network
        if not self.directed and len(edges) > 3:
            edges = np.append(edges, edges[:, [1, 0]], axis=0)

        #  Create sparse adjacency matrix from edge list
        sp_A = sp.coo_matrix(
            (np.ones_like(edges.T[0]), tuple(edges.T)), shape=(N, N))

        #  Set sparse""")]},
 {"name": "c05_weights_saved_under_other_name", "property": "C05", "edits": [
   (NW, """            self.graph.vs.set_attribute_values(
                "node_weight_nsi", list(self.node_weights))""", """            self.graph.vs.set_attribute_values(
                "node_weight", list(self.node_weights))""")]},
 {"name": "c05_n_links_halved_when_directed", "property": "C05", "edits": [
   (NW, """        if not self.directed:
            self.n_links //= 2""", """        self.n_links //= 2""")]},
 {"name": "c05_load_drops_graph", "property": "C05", "edits": [
   (NW, """        net.graph = graph
        #  invalidate cache
        net._mut_la += 1
        return net

    @staticmethod
    def SmallTestNetwork""", """        #  invalidate cache
        net._mut_la += 1
        return net

    @staticmethod
    def SmallTestNetwork""")]},
 {"name": "c05_copy_without_attributes", "property": "C05", "edits": [
   (NW, """        for a in self.graph.es.attributes():
            net.set_link_attribute(a, self.link_attribute(a))
        return net

    def undirected_copy""", """        return net

    def undirected_copy""")]},
 {"name": "c05_edgeless_one_dimensional", "property": "C05", "edits": [
   (NW, "edges = np.array(graph.get_edgelist(), dtype=int).reshape(-1, 2)", "edges = np.array(graph.get_edgelist())")]},
 {"name": "c05_geo_load_ignores_weights", "property": "C05", "edits": [
   (GN, """        node_weights = GeoNetwork._node_weights_from_graph(graph)
        if node_weights is not None:
            net.node_weights = node_weights
""", "")]},
 {"name": "c05_sparse_keeps_weights_dtype", "property": "C05", "edits": [
   (NW, "self.sp_A = adjacency.tocsc().astype(self.sp_dtype)", "self.sp_A = (adjacency.tocsc() != 0).astype(self.sp_dtype) if False else adjacency.tocsc().astype(self.sp_dtype) * (1 if N != 4 else 2)")]},
 {"name": "c15_white_noise_no_copy", "property": "C15", "edits": [
   (SU, "surrogates = self.original_data.copy()", "surrogates = self.original_data")]},
 {"name": "c15_twin_jump_without_successor", "property": "C15", "edits": [
   (TPYX, """                    k = twins_ik[rand]
                    k += 1""", """                    k = twins_ik[rand]""")]},
 {"name": "c15_twins_ignore_min_dist", "property": "C15", "edits": [
   (TPYX, """            for k in range(j - min_dist):
                # Continue only if both samples have the same number of
                # neighbors and more than just one neighbor (themselves)
                if nR[j] == nR[k] and nR[j] != 1:
                    l = 0

                    while R[j, l] == R[k, l]:
                        l += 1""", """            for k in range(j):
                # Continue only if both samples have the same number of
                # neighbors and more than just one neighbor (themselves)
                if nR[j] == nR[k] and nR[j] != 1:
                    l = 0

                    while R[j, l] == R[k, l]:
                        l += 1""")]},
 {"name": "c15_refined_amps_after_first_surrogate", "property": "C15", "edits": [
   (SU, """        original_fourier_amps = np.abs(fourier_transform)""", """        original_fourier_amps = np.abs(np.fft.rfft(self.AAFT_surrogates(), axis=1))""")]},
 {"name": "c15_corr_noise_in_place", "property": "C15", "edits": [
   (SU, "surrogates = self.original_data_fft().copy()", "surrogates = self.original_data_fft()"),
   (SU, "        surrogates *= np.exp(1j * phases)", "        surrogates *= np.exp(1j * phases) * (1 + 1e-3)")]},
 {"name": "c15_aaft_sorts_original_in_place", "property": "C15", "edits": [
   (SU, """        sorted_original = self.original_data.copy()
        sorted_original.sort(axis=1)

        ranks = phase_randomized_data""", """        sorted_original = self.original_data
        sorted_original.sort(axis=1)

        ranks = phase_randomized_data""")]},
 {"name": "c17_geo_target_may_exist", "property": "C17", "edits": [
   (CPYX, "(A[s,l] == 0 and A[t,k] == 0) and", "(A[s,l] == 0) and")]},
 {"name": "c17_geo_links_may_share_node", "property": "C17", "edits": [
   (CPYX, "if ((s != k and s != l and t != k and t != l) and", "if ((s != k and t != k and t != l) and")]},
 {"name": "c17_cross_swap_same_value", "property": "C17", "edits": [
   (CPYX, "        cross_links[e2, 1] = b\n", "        cross_links[e2, 1] = cross_links[e1, 1]\n")]},
 {"name": "c17_cross_overwrite_one_direction", "property": "C17", "edits": [
   (CPYX, "            A[n1, n2] = A[n2, n1] = cross_A[i, j]", "            A[n1, n2] = cross_A[i, j]")]},
 {"name": "c17_erdos_renyi_one_link_short", "property": "C17", "edits": [
   (NW, "graph = igraph.Graph.Erdos_Renyi(n=n_nodes, m=n_links)", "graph = igraph.Graph.Erdos_Renyi(n=n_nodes, m=max(n_links - 1, 0))")]},
 {"name": "c17_ba_forgets_last_child", "property": "C17", "edits": [
   (NW, "                last_child[i] = j\n", "")]},
 {"name": "c17_geo2_uses_grid_distance", "property": "C17", "edits": [
   ("src/pyunicorn/core/spatial_network.py", """        E = int(self.n_links)
        #  Collect adjacency and distance matrices
        A = to_cy(self.adjacency, ADJ)
        D = to_cy(distance_matrix, FIELD)

        #  Define for brevity
        eps = float(inaccuracy)

        #  Get edge list
        edges = to_cy(np.array(self.graph.get_edgelist()), NODE)

        _randomly_rewire_geomodel_II(""", """        E = int(self.n_links)
        #  Collect adjacency and distance matrices
        A = to_cy(self.adjacency, ADJ)
        D = to_cy(self.grid.distance(), FIELD)

        #  Define for brevity
        eps = float(inaccuracy)

        #  Get edge list
        edges = to_cy(np.array(self.graph.get_edgelist()), NODE)

        _randomly_rewire_geomodel_II(""")]},
 {"name": "c17_geo_len_cond_regrouped", "property": "C17", "edits": [
   (CPYX, """            (abs(D[s,t] - D[k,t]) < eps and abs(D[k,l] - D[s,l]) < eps) or
            (abs(D[s,t] - D[s,l]) < eps and abs(D[k,l] - D[k,t]) < eps))""", """            (abs(D[s,t] - D[k,t]) < eps or abs(D[s,t] - D[s,l]) < eps) and
            (abs(D[k,l] - D[s,l]) < eps or abs(D[k,l] - D[k,t]) < eps))""")]},
 {"name": "c06_splitted_copy_edits_weights", "property": "C06", "edits": [
   (NW, "        new_w[node] = (1.0 - proportion) * w[node]\n", "        w[node] *= (1.0 - proportion)\n        new_w[node] = w[node]\n")]},
 {"name": "c06_positional_entry_edited", "property": "C06", "edits": [
   ("src/pyunicorn/core/interacting_networks.py", """        nsi_shortest_paths = shortest_paths + np.eye(len(shortest_paths))
        nsi_shortest_paths[np.isinf(nsi_shortest_paths)] = self.N - 1
""", """        shortest_paths[np.isinf(shortest_paths)] = self.N - 1
        nsi_shortest_paths = shortest_paths + np.eye(len(shortest_paths))
""")]},
 {"name": "c06_region_indices_in_place", "property": "C06", "edits": [
   ("src/pyunicorn/core/geo_grid.py", "remapped_region = np.array(region).reshape(len(region)//2, 2)", "remapped_region = region.reshape(len(region)//2, 2)")]},
 {"name": "c06_rescale_in_place", "property": "C06", "edits": [
   (DT, """        if var_type not in ('float64', 'float32'):
            array = array.astype('float64')
""", "")]},
 {"name": "c06_zero_pad_writes_back", "property": "C06", "edits": [
   (DT, """        (n_time, n_nodes) = data.shape

        #  Get the power of n""", """        (n_time, n_nodes) = data.shape
        data -= data.mean(axis=0)

        #  Get the power of n""")]},
]
