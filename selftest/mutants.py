"""Hand-written sensitivity mutants: (file relative to the repo root, old, new)."""
NW = "src/pyunicorn/core/network.py"
MPI = "src/pyunicorn/utils/mpi.py"
CPYX = "src/pyunicorn/core/_ext/numerics.pyx"

MUTANTS = [
 {"name": "c19_newman_last_chunk_short", "property": "C19", "edits": [
   (NW, """                        end_i = min((index + 1) * step, N)
                        if start_i >= end_i:
                            break
                        this_A = A[start_i:end_i, :]
                        # submit the job""", """                        end_i = min((index + 1) * step, N - 1)
                        if start_i >= end_i:
                            break
                        this_A = A[start_i:end_i, :]
                        # submit the job""")]},
 {"name": "c19_kernel_relative_index", "property": "C19", "edits": [
   (CPYX, """        i_abs = i_rel + start_i
        for j in range(N):
             if this_A[i_rel, j]:
                sum_j = 0.0
                for s in range(N):
                    if this_not_adj_or_equal[i_rel, s]:""", """        i_abs = i_rel
        for j in range(N):
             if this_A[i_rel, j]:
                sum_j = 0.0
                for s in range(N):
                    if this_not_adj_or_equal[i_rel, s]:""")]},
 {"name": "c19_slave_queue_not_popped", "property": "C19", "edits": [
   (MPI, "        slave_queue[source].remove(id)\n", "")]},
 {"name": "c19_recv_any_source", "property": "C19", "edits": [
   (MPI, "(result, this_stats) = comm.recv(source=source)",
         "(result, this_stats) = comm.recv()")]},
 {"name": "c19_pool_drops_last_target", "property": "C19", "edits": [
   (NW, "batches = np.array_split(targets, n_workers)",
        "batches = np.array_split(targets[:-1], n_workers)")]},
 {"name": "c19_pool_first_batch_only", "property": "C19", "edits": [
   (NW, "betw_w = np.sum(pool.map(worker, batches), axis=0)",
        "betw_w = pool.map(worker, batches)[0]")]},
 {"name": "c19_arenas_overwrite_not_sum", "property": "C19", "edits": [
   (NW, """                        this_betweenness, start_i, end_i = result
                        component_betweenness += this_betweenness
                else:""", """                        this_betweenness, start_i, end_i = result
                        component_betweenness = this_betweenness
                else:""")]},
]
