"""Determinism self-test: the same (seed, run index) must give the same digest
 * in a 16-worker pool and in a serial fresh interpreter,
 * under different PYTHONHASHSEED values,
 * when executed twice.
usage: ./check selftest determinism [PID ...] [--runs N] [--seeds a,b,c]
A mismatch is a harness error (exit 2), never a property verdict.
"""
import json
import os
import subprocess
import sys
import time

VERIF = os.path.dirname(os.path.dirname(os.path.abspath(__file__)))
PY = "/venv/bin/python"
MAIN = os.path.join(VERIF, "sim", "main.py")


def main(argv):
    sys.path.insert(0, VERIF)
    from sim import build
    from sim.pool import Pool
    from sim.runner import machine_meta
    man = json.load(open(os.path.join(VERIF, "MANIFEST.json")))
    pids = [a.upper() for a in argv if a.upper().startswith("C")] or \
        [c["property_id"] for c in man["checks"]]
    runs = 400
    seeds = [0, 1]
    if "--runs" in argv:
        runs = int(argv[argv.index("--runs") + 1])
    if "--seeds" in argv:
        seeds = [int(x) for x in argv[argv.index("--seeds") + 1].split(",")]
    src = build.ensure()
    report = {}
    bad = 0
    for pid in pids:
        m = machine_meta(pid)
        t0 = time.time()
        tot = mism = 0
        for tier in ("quick",):
            configs = m.lru_configs(tier)
            for seed in seeds:
                # ---- pass 1: pool with 16 workers
                lrus = [configs[i % len(configs)] for i in range(16)]
                pool = Pool(src, lrus)
                per = max(1, runs // len(configs))
                want = {}
                tasks = []
                for ci, lru in enumerate(configs):
                    idxs = [k * len(configs) + ci for k in range(per)]
                    step = max(1, len(idxs) // 4)
                    for j in range(0, len(idxs), step):
                        tasks.append((lru, idxs[j:j + step]))
                pending = list(tasks)
                got = {}
                try:
                    while pending or pool.busy_count():
                        for p in pool.idle():
                            t = next((t for t in pending if t[0] == p.lru),
                                     None)
                            if t is None:
                                continue
                            pending.remove(t)
                            pool.submit(p, (t[0], tuple(t[1])),
                                        "digests_chunk",
                                        (pid, seed, tier, t[0], t[1]))
                        for p, tag, kind, val in pool.poll(0.5, 600):
                            if kind != "ok":
                                print(f"HARNESS-ERROR determinism: {kind} "
                                      f"{str(val)[:500]}")
                                return 2
                            for k_, v in val.items():
                                got[(tag[0], int(k_))] = v
                finally:
                    pool.close()
                # ---- pass 2: fresh serial interpreters, other hash seeds
                procs = []
                for j, lru in enumerate(configs):
                    ci = configs.index(lru)
                    idxs = [k * len(configs) + ci for k in range(per)]
                    env = dict(os.environ, PYTHONHASHSEED=str(777 + j))
                    procs.append((lru, idxs, subprocess.Popen(
                        ["timeout", "1800", PY, MAIN, "digests", pid,
                         str(seed), tier, lru,
                         ",".join(map(str, idxs))], env=env,
                        stdout=subprocess.PIPE, stderr=subprocess.PIPE,
                        text=True)))
                for lru, idxs, p in procs:
                    o, e = p.communicate()
                    try:
                        d = json.loads(o.strip().splitlines()[-1])
                    except Exception:
                        print(f"HARNESS-ERROR determinism subprocess: "
                              f"{o[-300:]} {e[-800:]}")
                        return 2
                    for i in idxs:
                        tot += 1
                        if d.get(str(i)) != got.get((lru, i)):
                            mism += 1
                            if mism <= 5:
                                print(f"MISMATCH {pid} seed={seed} lru={lru} "
                                      f"run={i}: pool {got.get((lru, i))} "
                                      f"fresh {d.get(str(i))}")
        report[pid] = {"runs_compared": tot, "mismatches": mism,
                       "seeds": seeds, "wall_s": round(time.time() - t0, 1)}
        print(pid, report[pid], flush=True)
        bad += mism
    with open(os.path.join(VERIF, "selftest", "determinism_report.json"),
              "w") as fh:
        json.dump({"how": "16-worker pool vs serial fresh interpreters with "
                          "other PYTHONHASHSEED values", "results": report},
                  fh, indent=1)
    if bad:
        print(f"HARNESS-ERROR determinism: {bad} mismatches")
        return 2
    return 0
