"""Float64 reference circuit model (explicit loops, no pyunicorn code)."""
import numpy as np


class Circuit:
    def __init__(self, A, R):
        self.A = np.asarray(A, dtype=int)
        self.N = self.A.shape[0]
        self.set_R(R)

    def set_R(self, R):
        R = np.asarray(R)
        self.R = R
        cplx = np.iscomplexobj(R)
        adm = np.zeros((self.N, self.N), dtype=complex if cplx else float)
        for i in range(self.N):
            for j in range(self.N):
                if self.A[i, j]:
                    adm[i, j] = 1.0 / R[i, j]
        self.adm = adm
        self.L = np.diag(adm.sum(axis=0)) - adm
        self.P = np.linalg.pinv(self.L)

    def er(self, a, b):
        if a == b:
            return 0.0
        P = self.P
        return P[a, a] - P[a, b] - P[b, a] + P[b, b]

    def er_all(self):
        return np.array([[self.er(a, b) for b in range(self.N)]
                         for a in range(self.N)])

    def average_er(self):
        N = self.N
        s = 0.0
        for i in range(N):
            for j in range(i):
                s += self.er(i, j)
        return 2 * s / (N * (N - 1))

    def diameter_er(self):
        return max(self.er(i, j) for i in range(self.N) for j in range(i))

    def ercc(self, a):
        return (self.N - 1) / sum(self.er(a, i) for i in range(self.N))

    def vcfb(self, i):
        N, P, G = self.N, self.P, self.adm
        tot = 0.0
        for t in range(N):
            for s in range(t):
                if i in (s, t):
                    continue
                J = 0.0
                for j in range(N):
                    J += G[i, j] * abs((P[i, s] - P[j, s])
                                       + (P[j, t] - P[i, t])) / 2.0
                tot += 2.0 * J / (N * (N - 1))
        return tot

    def ecfb(self):
        N, P, G = self.N, self.P, self.adm
        out = np.zeros((N, N))
        for i in range(N):
            for j in range(N):
                if G[i, j] == 0:
                    continue
                J = 0.0
                for t in range(N):
                    for s in range(t):
                        J += G[i, j] * abs(P[i, s] - P[j, s]
                                           + P[j, t] - P[i, t])
                out[i, j] = 2.0 * J / (N * (N - 1))
        return out

    def admittive_degree(self):
        return self.adm.sum(axis=0)

    def anad(self):
        ad = self.admittive_degree()
        out = np.zeros(self.N, dtype=ad.dtype)
        for i in range(self.N):
            s = 0
            for j in range(self.N):
                s += self.A[i, j] * ad[j]
            out[i] = s / ad[i]
        return out

    def local_clustering(self):
        N, G = self.N, self.adm
        ad = self.admittive_degree()
        d = self.A.sum(axis=0)
        ac = np.zeros(N, dtype=G.dtype)
        for i in range(N):
            if d[i] == 1:
                continue
            s = 0
            for j in range(N):
                for k in range(N):
                    s += G[i, j] * G[i, k] * G[j, k]
            ac[i] = s / (ad[i] * (d[i] - 1))
        return ac

    def shortest_path_resistance(self):
        N = self.N
        D = np.full((N, N), np.inf)
        for i in range(N):
            D[i, i] = 0
            for j in range(N):
                if self.A[i, j]:
                    D[i, j] = self.R[i, j].real
        for k in range(N):
            for i in range(N):
                for j in range(N):
                    if D[i, k] + D[k, j] < D[i, j]:
                        D[i, j] = D[i, k] + D[k, j]
        return D

    def foster(self):
        s = 0.0
        for i in range(self.N):
            for j in range(i):
                if self.A[i, j]:
                    s += self.er(i, j) / self.R[i, j]
        return s
