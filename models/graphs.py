"""Seeded generators of small inputs (pure functions of their recipe)."""
import random

import numpy as np


def rng_of(gseed):
    return random.Random(int(gseed))


def components_graph(sizes, p, gseed, isolated=0, shuffle=True):
    """Undirected 0/1 adjacency made of connected components of the given
    sizes (random spanning tree + extra links with probability p), plus
    isolated nodes, node labels permuted."""
    r = rng_of(gseed)
    n = sum(sizes) + isolated
    A = np.zeros((n, n), dtype=np.int8)
    off = 0
    for s in sizes:
        nodes = list(range(off, off + s))
        for k in range(1, s):
            j = nodes[r.randrange(k)]
            A[nodes[k], j] = A[j, nodes[k]] = 1
        for a in range(s):
            for b in range(a + 1, s):
                if r.random() < p:
                    A[nodes[a], nodes[b]] = A[nodes[b], nodes[a]] = 1
        off += s
    if shuffle:
        perm = list(range(n))
        r.shuffle(perm)
        perm = np.array(perm)
        A = A[np.ix_(perm, perm)]
    return A


def gnp(n, p, gseed, directed=False):
    r = rng_of(gseed)
    A = np.zeros((n, n), dtype=np.int8)
    for i in range(n):
        for j in range(n):
            if i == j or (not directed and j < i):
                continue
            if r.random() < p:
                A[i, j] = 1
                if not directed:
                    A[j, i] = 1
    return A


def connected_graph(n, p, gseed):
    return components_graph([n], p, gseed, shuffle=True)


def weights(n, gseed, lo=0.2, hi=3.0):
    r = rng_of(gseed)
    return np.array([round(r.uniform(lo, hi), 3) for _ in range(n)])


def sym_matrix(n, gseed, lo=0.1, hi=5.0, ints=False):
    r = rng_of(gseed)
    W = np.zeros((n, n))
    for i in range(n):
        for j in range(i + 1, n):
            v = r.randint(1, 9) if ints else round(r.uniform(lo, hi), 3)
            W[i, j] = W[j, i] = v
    return W


def matrix(n, gseed, lo=0.1, hi=5.0):
    r = rng_of(gseed)
    return np.array([[round(r.uniform(lo, hi), 3) for _ in range(n)]
                     for _ in range(n)])


def series(T, n, gseed, distinct=True):
    """n time series of length T as array [T, n] (AR(1)-like, rounded)."""
    r = rng_of(gseed)
    X = np.zeros((T, n))
    for j in range(n):
        x = r.gauss(0, 1)
        for t in range(T):
            x = 0.6 * x + r.gauss(0, 1)
            X[t, j] = round(x, 4)
    if distinct:
        for j in range(n):
            col = X[:, j]
            _, first = np.unique(col, return_index=True)
            dup = sorted(set(range(T)) - set(first.tolist()))
            for k, t in enumerate(dup):
                col[t] += 1e-3 * (k + 1) + 1e-5 * t
    return X
