"""Reference computations for the surrogate guarantees (explicit loops)."""
import numpy as np


def embed(x, dim, tau):
    """Delay embedding of a scalar series -> [n, dim]."""
    n = len(x) - (dim - 1) * tau
    return np.array([[x[t + d * tau] for d in range(dim)] for t in range(n)])


def recurrence_sup(E, thr, strict_gt=True):
    """Surrogates' own rule: NOT neighbours iff some |diff| > thr."""
    n = E.shape[0]
    R = np.ones((n, n), dtype=int)
    for j in range(n):
        for k in range(j):
            if np.max(np.abs(E[j] - E[k])) > thr:
                R[j, k] = R[k, j] = 0
    return R


def twins_from_R(R, min_dist):
    """Twins: rows identical, more than `min_dist` apart, not isolated."""
    n = R.shape[0]
    nR = R.sum(axis=0)
    tw = [[] for _ in range(n)]
    for j in range(n):
        for k in range(j - min_dist):
            if nR[j] == nR[k] and nR[j] != 1 and np.array_equal(R[j], R[k]):
                tw[j].append(k)
                tw[k].append(j)
    return tw


def amp_spectrum(x):
    return np.abs(np.fft.rfft(x, axis=-1))


def spectrum_dev(out, orig, full=False):
    """Max relative deviation of the amplitude spectrum at the non-zero,
    non-Nyquist frequencies (all frequencies if `full`)."""
    T = orig.shape[-1]
    hi = (T + 1) // 2            # exclusive: 1 .. ceil(T/2)-1
    lo = 1
    if full:
        lo, hi = 0, T // 2 + 1
    a, b = amp_spectrum(out)[..., lo:hi], amp_spectrum(orig)[..., lo:hi]
    if a.size == 0:
        return 0.0
    scale = float(np.max(amp_spectrum(orig))) or 1.0
    return float(np.max(np.abs(a - b))) / scale


def walk_legal(idx, twins, n):
    """Check a recovered index sequence of a twin surrogate.  Returns the
    position of the first illegal transition or -1."""
    for j in range(len(idx) - 1):
        k, k2 = idx[j], idx[j + 1]
        succ = {k + 1} | {t + 1 for t in twins[k]}
        if k2 in succ:
            continue
        if any(s >= n for s in succ):
            continue            # a successor ran off the end: restart legal
        return j
    return -1
