add("C19",
    "Seeded search over schedules of a discrete-event MPI world: the real utils/mpi.py runs once per rank (master + slaves as baton-passed threads) on a simulated communicator with drawn latencies, eager/rendezvous sends, stalls and compute times; the real master loops and chunk kernels are compared with the serial result (bitwise for the row-sliced kernels), plus protocol conservation, refusal of wrong collection orders, deadlock-freedom and bounded completion after the fault horizon; a simulated multiprocessing pool permutes batch execution. Sampling, not enumeration.",
    "Trusted: the simulated communicator implements MPI's reliable, per-channel non-overtaking semantics; result messages stay below the eager limit; real MPI progress engines and real spawn pools are outside the simulator.",
    "deterministic simulation: seeded scheduler over baton-passed rank threads, virtual clock, latency/stall/rendezvous injection",
    "DESIGN.md §4 C19")
add("C18",
    "Seeded search over histories of update_resistances (random, uniform rescaling, single edge) interleaved with every resistive query on one long-lived ResNetwork; after every step each value is compared with an independent float64 circuit model of the *current* resistances and the circuit laws (metric, path bound, Foster, series/parallel closed forms, scaling across an update) are evaluated on the object's own answers. Sampling, not enumeration.",
    "Trusted: the float64 reference circuit (numpy pinv, explicit loops); VCFB judged without end-point terms; float32 kernels compared with a stated absolute floor.",
    "deterministic simulation: seeded operation histories against an executable reference model",
    "DESIGN.md §4 C18")
add("C09",
    "Seeded search over histories of set_threshold / set_link_density / set_non_local / set_winter_only on ClimateNetwork (generated similarity matrices with ties, signs, asymmetry) and the data-driven subclasses; after every step an independent numpy model decides which pairs must be linked (incl. the tanh distance damping), the density bounds with tie counting, mutual consistency of threshold/density/link count/adjacency/sparse matrix/embedded graph, and monotonicity across the recorded history. Sampling, not enumeration.",
    "Trusted: the numpy thresholding model; the similarity reported by data-driven subclasses and the grid's angular distances are inputs; pairs within a few float32 ulps of the threshold are not judged where the code works in mixed precision.",
    "deterministic simulation: seeded operation histories against an executable reference model",
    "DESIGN.md §4 C09")
add("C13",
    "Seeded search over histories of set_window / set_global_window interleaved with reads of observable, grid, window and every derived series (phase means, anomalies, phase indices, selected phases/months, shuffled anomaly) on Data and ClimateData, both settings of the anomalies flag; a boolean-mask model on the full arrays decides every step, incl. the restore-global history invariant, zero phase means and anomaly + phase mean = windowed observable. Sampling, not enumeration.",
    "Trusted: the mask model; coordinates and bounds are generated float32-exact; windows with exactly one degenerate spatial axis and empty selections are not judged.",
    "deterministic simulation: seeded operation histories against an executable reference model",
    "DESIGN.md §4 C13")
add("C01",
    "Seeded search over call histories on every memoising class (20 specs; query patterns discovered by introspection, ~17k mutator x query pairs swept exhaustively at one input per class plus random histories of 6-30 ops over 1-3 live objects sharing the class-level LRU, with the LRU capacity / memoisation-off knob fixed per worker before import, discard+rebuild in a working directory that persists through the run). Oracle: a fresh twin built by the public constructor from the model of the object's current primary inputs (projection twin where the constructor cannot express the state), judged after the object's history has run; divergences reproduced by replaying earlier queries on a fresh twin are left to C06. Sampling, not enumeration.",
    "Trusted: the per-class model updates (what each public mutator does to the primary inputs); queries are compared at 1e-9 relative (1e-4 for projection twins holding float64 copies of float32 weights); ARPACK-based centralities, bookkeeping accessors, randomised generators, I/O and plotting are not judged.",
    "deterministic simulation: seeded operation histories with cache-capacity knob and durable working directory, fresh-twin reference model",
    "DESIGN.md §4 C01")
add("C06",
    "Seeded search over query orders on long-lived and shared objects: the ordered-pair matrix of all discovered query patterns (fresh; qa; qb) for the classes selected by the seed (all classes in the thorough tier) plus random query sequences replayed in a second order, in five sharing topologies (single object, two networks on one ClimateData, two networks on one GeoGrid, RecurrencePlot+Surrogates on one caller array, object and copy). After every step: value equals that of a fresh isolated object, an immediate repeat is equal, byte snapshots of every caller-supplied array are unchanged, and the shared Data/Grid object still answers like an isolated one; randomised generators run as perpetrators. Sampling, not enumeration.",
    "Trusted: fresh isolated objects as reference; documented-in-place methods are not generated; calls that only work after an earlier query set something up are not judged; ARPACK-based centralities and bookkeeping accessors are excluded.",
    "deterministic simulation: seeded query-order histories over shared objects with the cache-capacity knob, fresh-object reference",
    "DESIGN.md §4 C06")
add("C05",
    "Seeded search over chains of representation changes: a reference network (dense A, node weights, link-attribute matrices; edge cases edgeless / single link / trailing isolated nodes / directed / N=2) is pushed through 3-10 ops, each producing the next object from the previous one (dense, four sparse formats, edge list, set_edge_list, FromIGraph, copy, real save->Load in graphml / graphmlz / pickle / gml on a per-run scratch directory, for Network, SpatialNetwork, GeoNetwork and ClimateNetwork), and every observable of the statement is compared with the model after every step. One run in five injects write cuts with RLIMIT_FSIZE (short write / disk full) under a narrowly relaxed oracle: an acknowledged save that loads must load the same network. Sampling, not enumeration.",
    "Trusted: the dense reference model; the real kernel file system; files are not corrupted after a successful save; an edge list without n_nodes is only generated when the last node has a link.",
    "deterministic simulation with fault injection: seeded operation chains over a real scratch file system with RLIMIT_FSIZE write cuts, reference-model oracle",
    "DESIGN.md §4 C05")
add("C15",
    "Seeded search over repeated, interleaved generator calls on one Surrogates object and one RecurrencePlot (white noise, Fourier, AAFT, refined AAFT in its three outputs, twins, twin surrogates of both classes, normalisation and re-embedding in between) with every random draw supplied by a scripted source installed at all RNG seams (numpy.random as seen by surrogates.py, stdlib random and datetime as seen by the compiled kernels): legal values in adversarial patterns (sticky, extremal, low-entropy, identity/reversal permutations). After every call the output is checked against the model's current original data: row-wise permutation (bitwise), amplitude spectrum at non-zero non-Nyquist frequencies, twins equal to an independent computation, every twin-surrogate transition legal. Sampling, not enumeration.",
    "Trusted: the reference twin / spectrum computations; draw values are legal for the imitated API; Gaussian streams never degenerate to a constant (probability zero under any seed); distances within float32 rounding of a threshold are not judged.",
    "deterministic simulation: scripted random source at every RNG seam, seeded operation histories, invariant checkers",
    "DESIGN.md §4 C15")
for _p in ("C17",):
    PENDING[_p] = "in the family (DESIGN §4) but its check is not built yet in this commit; not claimed until it is"
