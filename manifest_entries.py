# one add(...) per claimed property that has a working check; PENDING for those designed but not yet built
for _p in ("C01", "C05", "C06", "C09", "C13", "C15", "C17", "C18", "C19"):
    PENDING[_p] = "in the family (DESIGN §4) but its check is not built yet in this commit; not claimed until it is"
