"""Known-findings file: committed, never written at run time."""
import fnmatch
import json
import os

PATH = os.path.join(os.path.dirname(os.path.dirname(os.path.abspath(__file__))),
                    "known_findings.json")


def load(pid):
    if not os.path.exists(PATH):
        return []
    with open(PATH) as fh:
        data = json.load(fh)
    return [f for f in data.get("findings", []) if f["property"] == pid]


def match(known, sig):
    """A finding matches by exact key (no wildcards: a different violation of
    the same property must still be reported)."""
    for f in known:
        if f["key"] == sig:
            return f
    return None
