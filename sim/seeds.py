"""One integer decides everything: independent PRNG streams derived from
VERIF_SEED by SHA-256 (independent of PYTHONHASHSEED)."""
import hashlib
import random


def derive(*parts):
    s = "/".join(str(p) for p in parts)
    return int.from_bytes(hashlib.sha256(s.encode()).digest()[:8], "big")


def stream(seed, prop, tier, run_index, name):
    return random.Random(derive(seed, prop, tier, run_index, name))


class Streams:
    """Lazily created named streams for one run."""

    def __init__(self, seed, prop, tier, run_index):
        self.key = (seed, prop, tier, run_index)
        self._s = {}

    def __getitem__(self, name):
        if name not in self._s:
            self._s[name] = stream(*self.key, name)
        return self._s[name]
