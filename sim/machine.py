"""Base class of the per-property machines (metadata is used by the parent,
generate/execute/shrink by the workers)."""
import json

from . import minimise as M


class Machine:
    pid = "C00"
    rule = ""
    probe_names = ()
    faults_na = ("message_loss", "message_duplication", "partition",
                 "process_crash", "clock_skew")
    real_vs_stub = {}
    assumptions = []
    has_clock = False
    run_wall_cap = 30.0
    minimise_by = "sig"

    def lru_configs(self, tier):
        return ["default"]

    def budget(self, tier):
        if tier == "thorough":
            return {"wall": 600, "max_runs": 10 ** 9, "chunk": 20,
                    "task_cap": 300}
        return {"wall": 40, "max_runs": 10 ** 9, "chunk": 10,
                "task_cap": 120}

    def extra_checks(self, tier, src):
        """Parent-side checks outside the worker pool (optional)."""
        return {}

    def det_sample(self, tier):
        return 6 if tier == "quick" else 40

    # ---- worker side
    def generate(self, seed, tier, idx, lru):
        raise NotImplementedError

    def execute(self, run):
        raise NotImplementedError

    def shrink(self, run, still_fails):
        return M.shrink_ops(run, still_fails)

    def sample(self, run):
        s = json.dumps(run, default=str)
        if len(s) > 2500:
            r = dict(run)
            r["ops"] = run.get("ops", [])[:6] + ["..."]
            s = json.dumps(r, default=str)[:2500]
            return {"truncated": s}
        return run


class Result:
    """Collects what one execution observed."""

    def __init__(self):
        self.violations = []
        self.trace = []
        self.probes = {}
        self.faults = {}
        self.cover = {}
        self.steps = 0
        self.sim_time = 0.0
        self.undefined = 0
        self.nontrivial = False
        self.opsig = ""

    def probe(self, name, n=1):
        self.probes[name] = self.probes.get(name, 0) + n

    def fault(self, name, n=1):
        self.faults[name] = self.faults.get(name, 0) + n

    def covered(self, matrix, item):
        self.cover.setdefault(matrix, set()).add(item)

    def violate(self, sig, detail, victim=None):
        if not any(v["sig"] == sig for v in self.violations):
            self.violations.append({"sig": sig, "detail": detail,
                                    "victim": victim})

    def as_dict(self):
        return {"violations": self.violations, "trace": self.trace,
                "probes": self.probes, "faults": self.faults,
                "cover": {k: sorted(v) for k, v in self.cover.items()},
                "steps": self.steps, "sim_time": self.sim_time,
                "undefined": self.undefined, "nontrivial": self.nontrivial,
                "opsig": self.opsig}
