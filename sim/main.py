"""Entry point (run as a file, never with -m, so no module is loaded twice)."""
import os
import sys

VERIF = os.path.dirname(os.path.dirname(os.path.abspath(__file__)))
sys.path.insert(0, VERIF)


def main(argv):
    from sim import runner
    if not argv:
        print("usage: check <id> [quick|thorough] | replay <file> | "
              "selftest determinism [ids] | build | clean")
        return 2
    cmd = argv[0]
    if cmd == "check":
        tier = argv[2] if len(argv) > 2 else os.environ.get(
            "VERIF_TIER", "quick")
        runner.check(argv[1].upper(), tier)
    elif cmd == "replay":
        runner.replay(argv[1], quiet="--quiet" in argv)
    elif cmd == "digests":
        runner.digests(*argv[1:6])
    elif cmd == "selftest":
        from selftest import determinism
        return determinism.main(argv[2:])
    elif cmd == "build":
        from sim import build
        try:
            print(build.ensure())
        except RuntimeError as e:
            print(f"HARNESS-ERROR build: {e}")
            return 2
    elif cmd == "clean":
        from sim import build
        build.clean()
    else:
        print(f"unknown command {cmd}")
        return 2
    return 0


if __name__ == "__main__":
    sys.exit(main(sys.argv[1:]))
