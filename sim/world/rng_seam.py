"""Scripted random source: every random draw of the code under test is
supplied by the simulator.

One `ScriptedRandom` per run consumes the run's `draws` stream, logs every
draw (site, request, value digest), enforces a per-call draw budget, and is
exposed through adapters that imitate exactly the calls the in-scope code
makes (DESIGN Appendix A).  Values are always *legal* for the imitated call;
the personality only changes their pattern.
"""
import contextlib
import math
import random as _stdrandom

import numpy as np

from ..errors import DrawBudgetExceeded

PERSONALITIES = ("uniform", "uniform", "sticky", "extremal", "low_entropy",
                 "mixture")


class ScriptedRandom:
    def __init__(self, rng, personality="uniform", budget=20000):
        self.rng = rng
        self.p = personality
        self.budget = budget
        self.calls = 0            # draws within the current operation
        self.total = 0
        self.log = []             # (site, request, summary) -- bounded
        self.by_site = {}
        self._last = {}
        self._pool = {}

    # ---- budget / logging
    def begin_op(self, budget=None):
        self.calls = 0
        if budget is not None:
            self.budget = budget

    def _tick(self, site, req, val):
        self.calls += 1
        self.total += 1
        self.by_site[site] = self.by_site.get(site, 0) + 1
        if len(self.log) < 400:
            self.log.append((site, req, val))
        if self.calls > self.budget:
            raise DrawBudgetExceeded(
                f"{self.calls} draws in one operation (site {site})")

    def _mode(self):
        if self.p == "mixture":
            return self.rng.choice(("uniform", "sticky", "extremal",
                                    "low_entropy"))
        return self.p

    # ---- the primitive: a float in [0, 1)
    def unit(self, site):
        m = self._mode()
        r = self.rng
        if m == "sticky" and site in self._last and r.random() < 0.6:
            v = self._last[site]
        elif m == "extremal":
            v = r.choice((0.0, 0.0, 1.0 - 2 ** -53, 0.5, r.random()))
        elif m == "low_entropy":
            pool = self._pool.setdefault(site, [r.random() for _ in range(3)])
            v = r.choice(pool)
        else:
            v = r.random()
        self._last[site] = v
        self._tick(site, "unit", round(v, 6))
        return v

    def below(self, n, site):
        """An int in [0, n)."""
        n = int(n)
        if n <= 0:
            raise ValueError("high <= 0")
        return min(n - 1, int(self.unit(site) * n))

    def units(self, shape, site):
        size = int(np.prod(shape)) if shape else 1
        m = self._mode()
        if size > 64 and m == "uniform":
            # bulk draw: one logged request, many values
            seed = self.rng.getrandbits(32)
            self._tick(site, f"bulk{size}", seed)
            out = np.random.RandomState(seed).random_sample(size)
        else:
            out = np.array([self.unit(site) for _ in range(size)])
        return out.reshape(shape) if shape else float(out[0])

    def normal(self, site):
        m = self._mode()
        # Gaussians: occasional exact ties (which do occur in single
        # precision pipelines), never a constant sequence -- that has
        # probability zero under any seed and makes AAFT divide 0 by 0
        if m in ("low_entropy", "sticky") and (site + "/n") in self._last \
                and self.rng.random() < 0.15:
            v = self._last[site + "/n"]
        else:
            v = self.rng.gauss(0, 1)
        self._last[site + "/n"] = v
        self._tick(site, "normal", round(v, 6))
        return v

    def permutation(self, n, site):
        m = self._mode()
        idx = list(range(n))
        if m == "extremal":
            k = self.rng.choice(("identity", "reverse", "rotate"))
            if k == "reverse":
                idx.reverse()
            elif k == "rotate" and n > 1:
                idx = idx[1:] + idx[:1]
        elif m == "low_entropy" and n > 1:
            i, j = self.rng.randrange(n), self.rng.randrange(n)
            idx[i], idx[j] = idx[j], idx[i]
        else:
            self.rng.shuffle(idx)
        self._tick(site, f"perm{n}", hash(tuple(idx)) % 10 ** 6)
        return idx


class NumpyLike:
    """Stands in for the `numpy.random` module object bound to the name
    `random` (or `rd`) in a pyunicorn module."""

    def __init__(self, sr, site):
        self.sr, self.site = sr, site

    def uniform(self, low=0.0, high=1.0, size=None):
        u = self.sr.units(_shape(size), self.site + ".uniform")
        return low + (high - low) * u

    def random(self, size=None):
        return self.sr.units(_shape(size), self.site + ".random")

    random_sample = random
    rand = lambda self, *shape: self.random(shape or None)  # noqa: E731

    def randn(self, *shape):
        size = int(np.prod(shape)) if shape else 1
        out = np.array([self.sr.normal(self.site + ".randn")
                        for _ in range(size)])
        return out.reshape(shape) if shape else float(out[0])

    def beta(self, a, b, size=None):
        u = self.sr.units(_shape(size), self.site + ".beta")
        return np.clip(u, 1e-9, 1 - 1e-9) if size is not None else \
            min(max(u, 1e-9), 1 - 1e-9)

    def shuffle(self, arr):
        idx = self.sr.permutation(len(arr), self.site + ".shuffle")
        arr[...] = np.array(arr)[idx]

    def permutation(self, x):
        n = x if isinstance(x, (int, np.integer)) else len(x)
        idx = np.array(self.sr.permutation(int(n), self.site + ".perm"))
        return idx if isinstance(x, (int, np.integer)) else np.array(x)[idx]

    def randint(self, low, high=None, size=None):
        if high is None:
            low, high = 0, low
        if size is None:
            return low + self.sr.below(high - low, self.site + ".randint")
        shp = _shape(size)
        n = int(np.prod(shp))
        vals = [low + self.sr.below(high - low, self.site + ".randint")
                for _ in range(n)]
        return np.array(vals, dtype=np.int64).reshape(shp)

    def seed(self, *a, **k):
        pass


class StdlibLike:
    """Stands in for the stdlib `random` module (and serves igraph)."""

    def __init__(self, sr, site):
        self.sr, self.site = sr, site

    def random(self):
        return self.sr.unit(self.site + ".random")

    def seed(self, *a, **k):
        self.sr.by_site[self.site + ".seed"] = \
            self.sr.by_site.get(self.site + ".seed", 0) + 1

    def randint(self, a, b):
        return a + self.sr.below(b - a + 1, self.site + ".randint")

    def randrange(self, a, b=None):
        if b is None:
            a, b = 0, a
        return a + self.sr.below(b - a, self.site + ".randrange")

    def gauss(self, mu, sigma):
        return mu + sigma * self.sr.normal(self.site + ".gauss")

    def getrandbits(self, k):
        v = 0
        for _ in range((k + 29) // 30):
            v = (v << 30) | self.sr.below(1 << 30, self.site + ".bits")
        return v & ((1 << k) - 1)

    def shuffle(self, x):
        idx = self.sr.permutation(len(x), self.site + ".shuffle")
        x[:] = [x[i] for i in idx]

    def uniform(self, a, b):
        return a + (b - a) * self.sr.unit(self.site + ".uniform")

    def choice(self, seq):
        return seq[self.sr.below(len(seq), self.site + ".choice")]


class FakeDatetime:
    """`datetime` as seen by the timeseries kernel (`datetime.now()` seeds
    the generator): served by the virtual clock."""

    def __init__(self, sr):
        self.sr = sr
        self.t = 0

    class _Stamp(float):
        def timestamp(self):
            return float(self)

    def now(self):
        self.t += 1
        self.sr.by_site["datetime.now"] = \
            self.sr.by_site.get("datetime.now", 0) + 1
        return FakeDatetime._Stamp(self.t)


def _shape(size):
    if size is None:
        return None
    if isinstance(size, (int, np.integer)):
        return (int(size),)
    return tuple(int(s) for s in size)


@contextlib.contextmanager
def installed(sr):
    """Install the scripted source at every seam of the in-scope code and
    restore the originals on exit (also on exceptions)."""
    import igraph
    import pyunicorn.core.network as m_net
    import pyunicorn.core.spatial_network as m_spa
    import pyunicorn.core.interacting_networks as m_int
    import pyunicorn.timeseries.surrogates as m_sur
    import pyunicorn.climate.climate_data as m_cd
    import pyunicorn.core._ext.numerics as k_core
    import pyunicorn.timeseries._ext.numerics as k_ts
    seams = [(m_net, "random", NumpyLike(sr, "network")),
             (m_spa, "random", NumpyLike(sr, "spatial")),
             (m_int, "random", NumpyLike(sr, "interacting")),
             (m_sur, "random", NumpyLike(sr, "surrogates")),
             (m_cd, "random", NumpyLike(sr, "climate_data")),
             (k_core, "rd", NumpyLike(sr, "core_kernel")),
             (k_ts, "random", StdlibLike(sr, "ts_kernel")),
             (k_ts, "rd", NumpyLike(sr, "ts_kernel_np")),
             (k_ts, "datetime", FakeDatetime(sr))]
    core_rd = NumpyLike(sr, "core_kernel")
    seams.append((k_core, "randint", core_rd.randint))
    saved = []
    for mod, name, obj in seams:
        if not hasattr(mod, name):
            raise RuntimeError(f"seam {mod.__name__}.{name} disappeared")
        saved.append((mod, name, getattr(mod, name)))
        setattr(mod, name, obj)
    # igraph calls back from C: an exception cannot propagate through it
    # and a degenerate stream could make its rejection loops spin, so igraph
    # is served by the plain uniform personality without a budget (the draws
    # still come from the run's stream and are counted)
    ig = ScriptedRandom(sr.rng, "uniform", budget=10 ** 12)
    ig.by_site = sr.by_site
    igraph.set_random_number_generator(StdlibLike(ig, "igraph"))
    np_state = np.random.get_state()
    try:
        yield sr
    finally:
        for mod, name, obj in saved:
            setattr(mod, name, obj)
        igraph.set_random_number_generator(_stdrandom)
        np.random.set_state(np_state)


def phase_legal(x):
    return 0.0 <= x < 2 * math.pi
