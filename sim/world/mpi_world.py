"""Discrete-event MPI world.

The real `pyunicorn/utils/mpi.py` source is executed once per rank against a
fake `mpi4py`; each rank runs in a real thread, but exactly one thread holds
the baton at any time and every blocking point (`send`, `recv`) hands it back
to the scheduler, which draws the next holder from the run's `sched` stream.
"""
import heapq  # noqa: F401  (kept for readers: time jumps are computed by scan)
import os
import pickle
import sys
import threading
import types

from ..errors import HarnessSignal, HarnessError

RUNNABLE, RECV_WAIT, SEND_WAIT, SLEEP, DONE = "run", "recv", "send", "sleep", \
    "done"
ANY_SOURCE = -2


class _Abort(HarnessSignal):
    """Unwinds a rank thread of an aborted run."""


class Deadlock(Exception):
    pass


class StepBudget(Exception):
    pass


class _Msg:
    __slots__ = ("payload", "visible_at", "rendezvous", "consumed", "seq")

    def __init__(self, payload, visible_at, rendezvous, seq):
        self.payload = payload
        self.visible_at = visible_at
        self.rendezvous = rendezvous
        self.consumed = False
        self.seq = seq


class _Rank:
    def __init__(self, r):
        self.r = r
        self.sem = threading.Semaphore(0)
        self.state = RUNNABLE
        self.want = None          # recv: source ; send: msg ; sleep: until
        self.thread = None
        self.exc = None
        self.result = None
        self.after_sleep = None


class SimComm:
    """What `MPI.COMM_WORLD` is to one rank."""

    def __init__(self, world, rank):
        self._w = world
        self.rank = rank
        self.size = world.size

    def Get_rank(self):
        return self.rank

    def Get_size(self):
        return self.size

    def send(self, obj, dest, tag=0):
        self._w._send(self.rank, obj, dest)

    def recv(self, source=ANY_SOURCE, tag=0, status=None):
        return self._w._recv(self.rank, source)

    def iprobe(self, source=ANY_SOURCE, tag=0, status=None):
        """Non-blocking test for a visible message (a scheduling point)."""
        return self._w._iprobe(self.rank, source)

    Iprobe = iprobe

    def Abort(self, errorcode=0):
        self._w.abort_called = True
        raise _Abort()


class FakeTime:
    """The `time` module as seen by one rank's copy of mpi.py."""

    def __init__(self, world):
        self._w = world

    def time(self):
        return self._w.now

    def sleep(self, d):                 # not used by mpi.py; kept harmless
        pass


class World:
    def __init__(self, size, rng, cfg, src_path):
        self.size = size
        self.rng = rng
        self.cfg = cfg
        self.now = 0.0
        self.seq = 0
        self.chan = {}                 # (src, dst) -> list of _Msg (FIFO)
        self.ranks = [_Rank(r) for r in range(size)]
        self.sched_sem = threading.Semaphore(0)
        self.aborted = False
        self.abort_called = False
        self.decisions = []            # (rank, kind, peer)
        self.steps = 0
        self.stats = {"msgs": 0, "rendezvous_sends": 0, "stalls": 0,
                      "latency_gt_1ms": 0, "eager_sends": 0,
                      "result_before_requested": 0, "max_inflight": 0,
                      "master_stalled_mid_submit": 0, "clock_jumps": 0,
                      "any_source_recv": 0}
        self.inflight = {}             # slave -> jobs received, not answered
        self.current = None
        self.steps_after_horizon = 0
        self.modules = [self._load_mpi(src_path, r) for r in range(size)]

    # ------------------------------------------------------------ module copies
    _code = {}

    def _load_mpi(self, src_path, rank):
        path = os.path.join(src_path, "pyunicorn", "utils", "mpi.py")
        if path not in World._code:
            with open(path) as fh:
                World._code[path] = compile(fh.read(), path, "exec")
        fake = types.ModuleType("mpi4py")
        fake.MPI = types.SimpleNamespace(
            COMM_WORLD=SimComm(self, rank), ANY_SOURCE=ANY_SOURCE)
        mod = types.ModuleType("pyunicorn.utils.mpi")
        mod.__file__ = path
        saved = {k: sys.modules.get(k) for k in ("mpi4py", "time")}
        sys.modules["mpi4py"] = fake
        sys.modules["time"] = FakeTime(self)
        try:
            exec(World._code[path], mod.__dict__)
        finally:
            for k, v in saved.items():
                if v is None:
                    sys.modules.pop(k, None)
                else:
                    sys.modules[k] = v
        if not isinstance(mod.time, FakeTime):
            raise HarnessError("mpi.py no longer imports `time` as a module")
        return mod

    # ------------------------------------------------------------ rank side
    def _yield(self, r):
        """Called by rank r's thread: give the baton back, wait for it."""
        if self.aborted:
            raise _Abort()
        rk = self.ranks[r]
        self.sched_sem.release()
        rk.sem.acquire()
        if self.aborted:
            raise _Abort()

    def _latency(self):
        c = self.cfg
        if self.now >= c["fault_horizon"] or self.rng.random() >= c["p_slow"]:
            return self.rng.choice((0.0, 1e-5, 1e-4))
        self.stats["latency_gt_1ms"] += 1
        return 10 ** self.rng.uniform(-3, 0)       # 1 ms .. 1 s

    def _maybe_stall(self, r, kind):
        c = self.cfg
        if self.now < c["fault_horizon"] and self.rng.random() < c["p_stall"]:
            d = 10 ** self.rng.uniform(-3, 0.5)
            self.stats["stalls"] += 1
            if r == 0 and kind == "send" and any(
                    self.inflight.get(s) for s in self.inflight):
                self.stats["master_stalled_mid_submit"] += 1
            rk = self.ranks[r]
            rk.state, rk.want = SLEEP, self.now + d
            self.decisions.append((r, "stall", -1))
            self._yield(r)

    def _send(self, r, obj, dest):
        if not (0 <= dest < self.size) or dest == r:
            raise ValueError(f"invalid destination rank {dest}")
        payload = pickle.dumps(obj, protocol=pickle.HIGHEST_PROTOCOL)
        rk = self.ranks[r]
        if r != 0:
            # a slave answers: charge its compute time before the message
            d = self._compute_time(obj)
            rk.state, rk.want = SLEEP, self.now + d
            self._yield(r)
        self._maybe_stall(r, "send")
        q = self.chan.setdefault((r, dest), [])
        vis = self.now + self._latency()
        if q and q[-1].visible_at > vis:          # non-overtaking per channel
            vis = q[-1].visible_at
        rdv = len(payload) > self.cfg["eager_limit"]
        self.seq += 1
        m = _Msg(payload, vis, rdv, self.seq)
        q.append(m)
        self.stats["msgs"] += 1
        if r != 0:
            self.inflight[r] = max(0, self.inflight.get(r, 0) - 1)
            w = self.ranks[0]
            if not (w.state == RECV_WAIT and w.want in (r, ANY_SOURCE)):
                self.stats["result_before_requested"] += 1
        if rdv:
            self.stats["rendezvous_sends"] += 1
            rk.state, rk.want = SEND_WAIT, m
        else:
            self.stats["eager_sends"] += 1
            rk.state = RUNNABLE
        self.decisions.append((r, "send", dest))
        self._yield(r)

    def _compute_time(self, obj):
        lo, hi = self.cfg["compute_decades"]
        return 10 ** self.rng.uniform(lo, hi)

    def _recv(self, r, source):
        rk = self.ranks[r]
        self._maybe_stall(r, "recv")
        if source == ANY_SOURCE or source is None:
            source = ANY_SOURCE
            self.stats["any_source_recv"] += 1
        rk.state, rk.want = RECV_WAIT, source
        self.decisions.append((r, "recv", source))
        self._yield(r)
        # scheduler made us runnable: a visible head message exists
        m, src = self._visible_head(r, source, pick=True)
        if m is None:
            raise HarnessError("woken without a visible message")
        self.chan[(src, r)].pop(0)
        m.consumed = True
        if r != 0:
            self.inflight[r] = self.inflight.get(r, 0) + 1
            tot = sum(1 for v in self.inflight.values() if v > 0)
            if tot > self.stats["max_inflight"]:
                self.stats["max_inflight"] = tot
        return pickle.loads(m.payload)

    def _iprobe(self, r, source):
        if source is None:
            source = ANY_SOURCE
        rk = self.ranks[r]
        rk.state = RUNNABLE
        self.decisions.append((r, "iprobe", source))
        self._yield(r)
        m, _ = self._visible_head(r, source)
        return m is not None

    def _visible_head(self, r, source, pick=False):
        cands = []
        srcs = range(self.size) if source == ANY_SOURCE else (source,)
        for s in srcs:
            q = self.chan.get((s, r))
            if q and q[0].visible_at <= self.now:
                cands.append((q[0], s))
        if not cands:
            return None, None
        if len(cands) > 1 and pick:
            return cands[self.rng.randrange(len(cands))]
        return cands[0]

    # ------------------------------------------------------------ scheduler
    def spawn(self, r, fn):
        rk = self.ranks[r]

        def body():
            rk.sem.acquire()
            try:
                if self.aborted:
                    return
                rk.result = fn()
            except _Abort:
                pass
            except BaseException as e:  # noqa: BLE001
                rk.exc = e
            finally:
                rk.state = DONE
                self.sched_sem.release()

        rk.thread = threading.Thread(target=body, daemon=True,
                                     name=f"rank{r}")
        rk.thread.start()

    def _refresh(self):
        """Move ranks whose wait condition is met to RUNNABLE."""
        for rk in self.ranks:
            if rk.state == RECV_WAIT:
                m, _ = self._visible_head(rk.r, rk.want)
                if m is not None:
                    rk.state = RUNNABLE
            elif rk.state == SEND_WAIT:
                if rk.want.consumed:
                    rk.state = RUNNABLE
            elif rk.state == SLEEP:
                if rk.want <= self.now:
                    rk.state = RUNNABLE

    def _next_time(self):
        """Earliest future instant at which a *waiting* rank can proceed."""
        best = None
        for rk in self.ranks:
            t = None
            if rk.state == SLEEP:
                t = rk.want
            elif rk.state == RECV_WAIT:
                srcs = range(self.size) if rk.want == ANY_SOURCE \
                    else (rk.want,)
                for s in srcs:
                    q = self.chan.get((s, rk.r))
                    if q and (t is None or q[0].visible_at < t):
                        t = q[0].visible_at
            if t is not None and t > self.now and (best is None or t < best):
                best = t
        return best

    def run(self, until_done=(0,), max_steps=5000):
        """Drive the world until the ranks in `until_done` finished."""
        horizon_step = None
        rr = 0
        while True:
            if all(self.ranks[r].state == DONE for r in until_done):
                return
            self._refresh()
            runnable = [rk for rk in self.ranks if rk.state == RUNNABLE]
            if not runnable:
                t = self._next_time()
                if t is None:
                    raise Deadlock(self.describe())
                self.now = t
                self.stats["clock_jumps"] += 1
                continue
            self.steps += 1
            if self.steps > max_steps:
                raise StepBudget(self.describe())
            if self.now >= self.cfg["fault_horizon"]:
                if horizon_step is None:
                    horizon_step = self.steps
                # after the fault horizon: round-robin, no randomness
                rr += 1
                rk = runnable[rr % len(runnable)]
            else:
                rk = runnable[self.rng.randrange(len(runnable))] \
                    if len(runnable) > 1 else runnable[0]
            self.decisions.append((rk.r, "run", len(runnable)))
            self.current = rk.r
            rk.sem.release()
            self.sched_sem.acquire()
            self.steps_after_horizon = (
                self.steps - horizon_step if horizon_step else 0)

    def describe(self):
        out = []
        for rk in self.ranks:
            w = rk.want
            if isinstance(w, _Msg):
                w = f"msg#{w.seq}"
            out.append(f"r{rk.r}:{rk.state}:{w}")
        chans = {f"{s}->{d}": len(q) for (s, d), q in self.chan.items() if q}
        return f"t={self.now:.6g} ranks=[{' '.join(out)}] queued={chans}"

    def abort(self):
        self.aborted = True
        for rk in self.ranks:
            if rk.state != DONE:
                rk.sem.release()
        for rk in self.ranks:
            if rk.thread is not None:
                rk.thread.join(timeout=2.0)

    def drain(self):
        """Let every remaining rank run to completion (after terminate)."""
        self.run(until_done=tuple(range(self.size)), max_steps=self.steps
                 + 50 * self.size + 200)
        for rk in self.ranks:
            rk.thread.join(timeout=2.0)


class SimPool:
    """In-process stand-in for `multiprocessing.get_context('spawn').Pool()`:
    pickles the callable and each batch as spawn does, executes the batches
    in an order drawn from the schedule stream, returns results in order."""

    def __init__(self, owner):
        self.o = owner
        self.closed = False

    def __enter__(self):
        return self

    def __exit__(self, *a):
        self.terminated = True
        return False

    def map(self, func, iterable, chunksize=None):
        if self.closed:
            raise ValueError("Pool not running")
        items = list(iterable)
        fblob = pickle.dumps(func)
        blobs = [pickle.dumps(it) for it in items]
        order = list(range(len(items)))
        self.o.rng.shuffle(order)
        self.o.stats["pool_maps"] += 1
        self.o.stats["pool_batches"] += len(items)
        ne = 0
        res = [None] * len(items)
        for i in order:
            f = pickle.loads(fblob)
            arg = pickle.loads(blobs[i])
            try:
                if len(arg) == 0:
                    self.o.stats["empty_pool_batch"] += 1
                else:
                    ne += 1
            except TypeError:
                pass
            res[i] = pickle.loads(pickle.dumps(f(arg)))
            self.o.order.append(i)
        if ne >= 2:
            self.o.stats["pool_multi_batch"] += 1
        return res

    def close(self):
        self.closed = True

    def join(self):
        if not self.closed:
            raise ValueError("Pool is still running")

    def terminate(self):
        self.closed = True


class PoolWorld:
    """Owns the `get_context` / `cpu_count` seams of core/network.py."""

    def __init__(self, rng, n_workers):
        self.rng = rng
        self.n_workers = n_workers
        self.order = []
        self.stats = {"pool_maps": 0, "pool_batches": 0,
                      "empty_pool_batch": 0, "pool_multi_batch": 0}

    def get_context(self, method=None):
        self.method = method
        return self

    def Pool(self, processes=None, *a, **k):
        return SimPool(self)

    def cpu_count(self):
        return self.n_workers
