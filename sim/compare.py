"""Structure-recursive comparison and canonical byte encoding of results."""
import hashlib
import numpy as np

try:
    import scipy.sparse as _sp
except Exception:              # pragma: no cover
    _sp = None

TOL = {
    "exact": (0.0, 0.0),
    "tight": (1e-9, 1e-12),
    "f32": (1e-4, 1e-6),
    "fuzzy": (1e-6, 1e-9),
}


class Raised:
    """Outcome of a call that raised: compared by exception type name."""

    def __init__(self, exc):
        self.type = type(exc).__name__
        self.msg = str(exc)[:200]

    def __repr__(self):
        return f"Raised({self.type}: {self.msg})"


def call(f, *a, **k):
    """Run f; return its value or a Raised marker (harness exceptions such as
    timeouts are re-raised)."""
    from .errors import HarnessSignal, DrawBudgetExceeded
    try:
        return f(*a, **k)
    except (HarnessSignal, DrawBudgetExceeded):
        raise
    except KeyboardInterrupt:
        raise
    except BaseException as e:  # noqa: BLE001  (pyunicorn exceptions are data,
        return Raised(e)        # incl. its own sys.exit() on solver errors)


def _dense(x):
    if _sp is not None and _sp.issparse(x):
        return np.asarray(x.todense())
    return x


def same(a, b, tol="tight", path=""):
    """Return (True, "") or (False, reason)."""
    rtol, atol = TOL[tol] if isinstance(tol, str) else tol
    a, b = _dense(a), _dense(b)
    if isinstance(a, Raised) or isinstance(b, Raised):
        if isinstance(a, Raised) and isinstance(b, Raised):
            if a.type == b.type:
                return True, ""
            return False, f"{path}: raises {a.type} vs {b.type}"
        return False, f"{path}: {a!r} vs {_short(b)}"
    if a is None or b is None:
        return (a is None and b is None), f"{path}: None vs value"
    if isinstance(a, dict) and isinstance(b, dict):
        if set(a) != set(b):
            return False, f"{path}: dict keys {sorted(map(str, a))} vs " \
                          f"{sorted(map(str, b))}"
        for k in a:
            ok, why = same(a[k], b[k], tol, f"{path}[{k!r}]")
            if not ok:
                return ok, why
        return True, ""
    if isinstance(a, (list, tuple)) and isinstance(b, (list, tuple)):
        if len(a) != len(b):
            return False, f"{path}: len {len(a)} vs {len(b)}"
        # ragged / object lists: recurse
        try:
            aa, bb = np.asarray(a), np.asarray(b)
            if aa.dtype != object and bb.dtype != object:
                return same(aa, bb, tol, path)
        except Exception:
            pass
        for i, (x, y) in enumerate(zip(a, b)):
            ok, why = same(x, y, tol, f"{path}[{i}]")
            if not ok:
                return ok, why
        return True, ""
    if isinstance(a, (str, bytes)) or isinstance(b, (str, bytes)):
        return (a == b), f"{path}: {a!r} vs {b!r}"
    if isinstance(a, (set, frozenset)) and isinstance(b, (set, frozenset)):
        return (a == b), f"{path}: set differs"
    try:
        aa, bb = np.asarray(a), np.asarray(b)
    except Exception:
        return (a == b), f"{path}: objects differ"
    if aa.dtype == object or bb.dtype == object:
        if aa.shape != bb.shape:
            return False, f"{path}: shape {aa.shape} vs {bb.shape}"
        if aa.shape == ():
            x, y = aa.item(), bb.item()
            if type(x) is not type(y):
                return False, f"{path}: type {type(x).__name__} vs " \
                              f"{type(y).__name__}"
            if hasattr(x, "__dict__"):
                return True, ""      # opaque objects: same type is all we ask
            try:
                return bool(x == y), f"{path}: objects differ"
            except Exception:
                return True, ""
        for i, (x, y) in enumerate(zip(aa.ravel(), bb.ravel())):
            ok, why = same(x, y, tol, f"{path}[{i}]")
            if not ok:
                return ok, why
        return True, ""
    if aa.shape != bb.shape:
        return False, f"{path}: shape {aa.shape} vs {bb.shape}"
    ka, kb = aa.dtype.kind, bb.dtype.kind
    num = "biufc"
    if ka in num and kb in num:
        if ka in "biu" and kb in "biu":
            if np.array_equal(aa, bb):
                return True, ""
            return False, f"{path}: {_short(aa)} vs {_short(bb)}"
        with np.errstate(all="ignore"):
            ok = np.isclose(aa, bb, rtol=rtol, atol=atol, equal_nan=True)
        if np.all(ok):
            return True, ""
        return False, f"{path}: {_short(aa)} vs {_short(bb)} " \
                      f"({int(np.sum(~ok))} of {ok.size} differ)"
    if np.array_equal(aa, bb):
        return True, ""
    return False, f"{path}: {_short(aa)} vs {_short(bb)}"


def _short(x, n=120):
    try:
        s = np.array2string(np.asarray(x), precision=6, threshold=12,
                            separator=",").replace("\n", "")
    except Exception:
        s = repr(x)
    return s if len(s) <= n else s[:n] + "..."


def short(x, n=120):
    if isinstance(x, Raised):
        return repr(x)[:n]
    return _short(_dense(x), n)


def canon_bytes(x):
    """Canonical bytes of a result for digests (exact values)."""
    x = _dense(x)
    if isinstance(x, Raised):
        return b"R:" + x.type.encode()
    if x is None:
        return b"N"
    if isinstance(x, dict):
        return b"D{" + b",".join(
            canon_bytes(str(k)) + b":" + canon_bytes(x[k])
            for k in sorted(x, key=str)) + b"}"
    if isinstance(x, (list, tuple)):
        try:
            arr = np.asarray(x)
            if arr.dtype != object:
                return canon_bytes(arr)
        except Exception:
            pass
        return b"L[" + b",".join(canon_bytes(e) for e in x) + b"]"
    if isinstance(x, str):
        return b"S:" + x.encode()
    if isinstance(x, bytes):
        return b"B:" + x
    if isinstance(x, (set, frozenset)):
        return b"T{" + b",".join(sorted(canon_bytes(e) for e in x)) + b"}"
    try:
        arr = np.asarray(x)
    except Exception:
        return b"O:" + type(x).__name__.encode()
    if arr.dtype == object:
        if arr.shape == ():
            return b"O:" + type(arr.item()).__name__.encode()
        return b"L[" + b",".join(canon_bytes(e) for e in arr.ravel()) + b"]"
    if arr.dtype.kind == "f":
        arr = arr.astype(np.float64)
    elif arr.dtype.kind in "iub":
        arr = arr.astype(np.int64)
    elif arr.dtype.kind == "c":
        arr = arr.astype(np.complex128)
    return (arr.dtype.kind.encode() + repr(arr.shape).encode()
            + np.ascontiguousarray(arr).tobytes())


def digest_of(x):
    return hashlib.sha256(canon_bytes(x)).hexdigest()[:16]
