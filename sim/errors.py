class HarnessSignal(BaseException):
    """Base of exceptions that must never be swallowed as pyunicorn data."""


class RunTimeout(HarnessSignal):
    pass


class DrawBudgetExceeded(Exception):
    """Raised by the scripted random source when a call exceeds its budget.
    Deliberately an ordinary Exception: it must propagate out of pyunicorn's
    (compiled) loops like any exception raised by a random generator."""


class HarnessError(Exception):
    """A defect in the harness itself (never a property verdict)."""
