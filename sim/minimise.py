"""ddmin-style shrinking of a run dictionary's op list (and other lists)."""
import copy


def ddmin_list(items, test, keep=lambda i, it: False):
    """Return a (locally) minimal sublist of `items` for which test(sublist)
    is True.  `keep(i, item)` marks items that must not be removed."""
    items = list(items)
    n = 2
    while len(items) >= 2:
        chunk = max(1, len(items) // n)
        removed = False
        i = 0
        while i < len(items):
            cand = [it for j, it in enumerate(items)
                    if not (i <= j < i + chunk) or keep(j, it)]
            if len(cand) < len(items) and test(cand):
                items = cand
                removed = True
                n = max(n - 1, 2)
            else:
                i += chunk
        if not removed:
            if chunk == 1:
                break
            n = min(len(items), n * 2)
    return items


def shrink_ops(run, still_fails, key="ops", keep=lambda i, op: False,
               fixup=None):
    """Generic shrinker: ddmin over run[key]; `fixup(run)` may repair
    references after removal (return None to reject)."""
    def test(ops):
        cand = copy.deepcopy(run)
        cand[key] = ops
        if fixup is not None:
            cand = fixup(cand)
            if cand is None:
                return False
        return still_fails(cand)

    ops = ddmin_list(run[key], test, keep)
    best = copy.deepcopy(run)
    best[key] = ops
    if fixup is not None:
        best = fixup(best) or best
    return best
