"""Worker side: import pyunicorn from the built tree with the cache knob set,
generate and execute runs, minimise, all under per-run wall caps."""
import faulthandler
import hashlib
import importlib
import importlib.util
import json
import os
import signal
import sys
import time
import traceback

from .errors import RunTimeout, HarnessError

LRU_CONFIGS = {
    "default": None,                                  # library default (32)
    "1": {"maxsize": 1, "typed": True},
    "2": {"maxsize": 2, "typed": True},
    "8": {"maxsize": 8, "typed": True},
    "inf": {"maxsize": None, "typed": True},
    "off": "off",
    # library defaults plus re-evaluation on every hit (sim/shadow.py)
    "shadow": "shadow",
}

_STATE = {"src": None, "lru": None, "out": None, "machines": {},
          # run indices this process has executed so far (generated runs
          # only): the part of a run's outcome that is not in its dictionary
          # is what the process did before
          "history": []}


def setup(src, lru, silence=True):
    """Called once per worker process, before anything imports pyunicorn."""
    if _STATE["src"] is not None:
        if (_STATE["src"], _STATE["lru"]) != (src, lru):
            raise HarnessError("worker already configured differently")
        return
    for v in ("OMP_NUM_THREADS", "OPENBLAS_NUM_THREADS", "MKL_NUM_THREADS"):
        os.environ[v] = "1"
    assert "pyunicorn" not in sys.modules, "pyunicorn imported too early"
    sys.path.insert(0, src)
    if silence:
        # pyunicorn (and igraph's C layer) print progress; keep a handle on
        # the real stdout and send fd 1 to /dev/null.
        sys.stdout.flush()
        _STATE["out"] = os.fdopen(os.dup(1), "w")
        dn = os.open(os.devnull, os.O_WRONLY)
        os.dup2(dn, 1)
        os.close(dn)
        sys.stdout = open(os.devnull, "w")
    else:
        _STATE["out"] = sys.stdout
    cfg = LRU_CONFIGS[lru]
    if cfg is not None:
        path = os.path.join(src, "pyunicorn", "core", "cache.py")
        spec = importlib.util.spec_from_file_location(
            "pyunicorn.core.cache", path)
        mod = importlib.util.module_from_spec(spec)
        spec.loader.exec_module(mod)
        if cfg == "off":
            mod.Cached.cache_enable = False
        elif cfg == "shadow":
            from . import shadow
            shadow.install(mod)
        else:
            mod.Cached.lru_params = dict(cfg)
        sys.modules["pyunicorn.core.cache"] = mod
    import warnings
    warnings.filterwarnings("ignore")
    import numpy as np
    np.seterr(all="ignore")
    import pyunicorn  # noqa: F401
    import pyunicorn.core.cache as cache_mod
    if cfg is not None and cache_mod is not sys.modules[
            "pyunicorn.core.cache"]:
        raise HarnessError("cache knob not in effect")
    mods = [pyunicorn] + [
        importlib.import_module(f"pyunicorn.{p}._ext.numerics")
        for p in ("core", "climate", "funcnet", "timeseries")]
    for m in mods:
        if not os.path.realpath(m.__file__).startswith(
                os.path.realpath(src) + os.sep):
            raise HarnessError(f"wrong-tree: {m.__name__} from {m.__file__}")
    _STATE["src"], _STATE["lru"] = src, lru
    signal.signal(signal.SIGALRM, _on_alarm)
    faulthandler.enable(file=sys.stderr)


def out():
    return _STATE["out"] or sys.stdout


def _on_alarm(signum, frame):
    raise RunTimeout()


def machine(pid):
    if pid not in _STATE["machines"]:
        mod = importlib.import_module(f"machines.{pid.lower()}")
        _STATE["machines"][pid] = mod.MACHINE
    return _STATE["machines"][pid]


def run_digest(run, trace):
    blob = json.dumps([run, trace], sort_keys=True, default=str)
    return hashlib.sha256(blob.encode()).hexdigest()[:20]


def execute(pid, run, wall_cap=None):
    """Execute one run dictionary; returns the result summary."""
    m = machine(pid)
    cap = wall_cap or getattr(m, "run_wall_cap", 30.0)
    t0 = time.time()
    signal.setitimer(signal.ITIMER_REAL, cap)
    generic = getattr(m, "shadow_generic", False) and \
        LRU_CONFIGS.get(_STATE["lru"]) == "shadow"
    if generic:
        from . import shadow
        shadow.reset()
    try:
        res = m.execute(run)
        res.setdefault("status", "ok")
        if generic:
            _shadow_generic(pid, res)
    except RunTimeout:
        res = {"status": "harness", "error": f"run exceeded {cap}s wall cap",
               "violations": [], "trace": []}
    except BaseException as e:  # noqa: BLE001
        if isinstance(e, (KeyboardInterrupt, SystemExit)):
            raise
        res = {"status": "harness",
               "error": "".join(traceback.format_exception(e))[-3000:],
               "violations": [], "trace": []}
    finally:
        signal.setitimer(signal.ITIMER_REAL, 0)
    res["wall"] = time.time() - t0
    res["digest"] = run_digest(run, res.get("trace", []))
    return res


def _shadow_generic(pid, res):
    """Machines without their own handling: a memoised value served although
    re-evaluation on the object as it is gives another one (checked again at
    the end of the run) is a violation of the property's "follows every
    change" / "does not degrade" clause."""
    from . import shadow
    for e in shadow.drain():
        sig = f"{pid}|{e['cls']}|shadow-{e['kind']}|{e['method']}"
        if not any(v["sig"] == sig for v in res["violations"]):
            res["violations"].append({
                "sig": sig, "victim": f"{e['cls']}|shadow:{e['method']}",
                "detail": f"the memoised {e['qual']}{e['args']} was served "
                          f"although re-evaluating it on the object as it is "
                          f"gives another value ({e['why']}); {e['kind']}"})
    h, nd = shadow.take_counts()
    pr = res.setdefault("probes", {})
    pr["shadow_hits_reevaluated"] = pr.get("shadow_hits_reevaluated", 0) + h
    if nd:
        pr["shadow_nondeterministic_method"] = nd
    shadow.reset()


def run_chunk(pid, seed, tier, lru, indices, keep_runs=False):
    """Generate and execute the runs with the given indices."""
    m = machine(pid)
    out_list = []
    for idx in indices:
        try:
            run = m.generate(seed, tier, idx, lru)
        except BaseException as e:  # noqa: BLE001
            if isinstance(e, (KeyboardInterrupt, SystemExit)):
                raise
            out_list.append({"idx": idx, "status": "harness",
                             "error": "generate: " + "".join(
                                 traceback.format_exception(e))[-3000:],
                             "violations": [], "digest": "", "run": None})
            continue
        res = execute(pid, run)
        res["idx"] = idx
        res.pop("trace", None)
        if res["violations"]:
            res["history"] = list(_STATE["history"])
        _STATE["history"].append(idx)
        if res["violations"] or res["status"] == "harness" or keep_runs:
            res["run"] = run
        elif idx < 3 * len(m.lru_configs(tier)):
            res["run"] = run            # samples for the evidence file
        out_list.append(res)
    return out_list


def digests_chunk(pid, seed, tier, lru, indices):
    m = machine(pid)
    d = {}
    for idx in indices:
        run = m.generate(seed, tier, idx, lru)
        d[idx] = execute(pid, run)["digest"]
    return d


def minimise(pid, run, target, wall=60.0, max_exec=200):
    """Shrink `run` while a violation matching `target` persists.
    target: callable-free description {"victim": str} or {"sig": str}."""
    m = machine(pid)
    t_end = time.time() + wall
    n = [0]

    def matches(res):
        for v in res.get("violations", []):
            if "sig" in target and v["sig"] == target["sig"]:
                return v
            if "victim" in target and v.get("victim") == target["victim"]:
                return v
        return None

    def still_fails(cand):
        if time.time() > t_end or n[0] >= max_exec:
            return False
        n[0] += 1
        res = execute(pid, cand)
        return matches(res) is not None

    best = m.shrink(run, still_fails)
    res = execute(pid, best)
    v = matches(res)
    if v is None:           # should not happen; fall back to the original
        best = run
        res = execute(pid, best)
        v = matches(res)
    return best, v, n[0]
