"""Shadow mode of the memoisation layer (LRU configuration "shadow").

Installed on the `core/cache.py` module the worker executes by path *before*
pyunicorn is imported -- the same seam as the capacity knob, no change to the
repository.  `Cached.method` keeps working exactly as shipped (the real
`lru_cache` with the real keys), but every top-level *hit* is followed by a
re-evaluation of the undecorated function on the same object and arguments:

 * equal                      -> nothing
 * two re-evaluations differ  -> the method is not deterministic, not judged
 * the memoised value is no longer the value that was stored (digest taken
   at the miss)               -> "edited": something wrote into the memoised
                                 object (C06)
 * the memoised value is still what was stored, but a re-evaluation on the
   object as it is now differs -> "stale": the key does not cover the state
                                 the method reads (C01)

Events are kept until the machine drains them at an operation boundary, where
"edited" events are re-checked (a temporary in-place edit that the library
restores before the public call returns is not a violation).  This oracle
needs neither a model of the class nor a fresh twin, and names the call site.
"""
import contextlib
import functools

import numpy as np

from . import compare as C

STATE = {"installed": False, "enabled": True, "depth": 0,
         "events": [], "stored": {}, "hits_checked": 0, "nondet": 0}
MAX_EVENTS = 50


def _close(a, b):
    """Equal up to 1e-6 (single-precision values: 1e-4) of the value's
    scale: a re-evaluation on single-precision data that were re-normalised
    in between moves by rounding noise; stale or overwritten values differ
    by far more."""
    scale, eps = 1.0, 1e-6
    try:
        x = np.asarray(b)
        if x.dtype.kind in "fc" and x.size:
            m = np.nanmax(np.abs(x[np.isfinite(x)])) if np.isfinite(
                x).any() else 1.0
            scale = max(1.0, float(m))
            if x.dtype in (np.float32, np.complex64):
                eps = 1e-4      # single-precision values
    except Exception:
        pass
    return C.same(a, b, (eps, eps * scale))


def _key(self, attrs, a, k):
    try:
        av = tuple(getattr(self, x) for x in attrs) if attrs else ()
        return (hash(self), av, repr(a), repr(sorted(k.items())))
    except Exception:
        return None


def install(cache_mod):
    """Wrap Cached.method of the freshly executed cache module."""
    Cached = cache_mod.Cached
    orig = Cached.__dict__["method"].__func__

    def method(cls, name=None, attrs=None):
        make = orig(cls, name, attrs)

        def wrapper(f):
            wrapped = make(f)
            if not hasattr(wrapped, "cache_info"):
                return wrapped

            def shadowed(self, *a, **k):
                if not STATE["enabled"] or STATE["depth"]:
                    return wrapped(self, *a, **k)
                h0 = wrapped.cache_info().hits
                val = wrapped(self, *a, **k)
                key = _key(self, attrs, a, k)
                if key is None:
                    return val
                skey = (f.__qualname__, key)
                if wrapped.cache_info().hits == h0:
                    # a miss: remember what was stored
                    STATE["stored"][skey] = C.digest_of(val)
                    if len(STATE["stored"]) > 20000:
                        STATE["stored"].clear()
                    return val
                STATE["depth"] += 1
                try:
                    STATE["hits_checked"] += 1
                    fresh = C.call(f, self, *a, **k)
                    if _close(val, fresh)[0]:
                        return val
                    fresh2 = C.call(f, self, *a, **k)
                    if not _close(fresh, fresh2)[0]:
                        STATE["nondet"] += 1
                        return val
                    d0 = STATE["stored"].get(skey)
                    kind = "edited" if (d0 is not None and
                                        d0 != C.digest_of(val)) else "stale"
                    if len(STATE["events"]) < MAX_EVENTS:
                        STATE["events"].append({
                            "kind": kind, "cls": type(self).__name__,
                            "method": f.__name__, "qual": f.__qualname__,
                            "args": (repr(a) + repr(sorted(k.items())))[:120],
                            "why": _close(val, fresh)[1][:300],
                            "recheck": (self, wrapped, f, a, k)})
                finally:
                    STATE["depth"] -= 1
                return val
            functools.update_wrapper(shadowed, f)
            shadowed.cache_info = wrapped.cache_info
            shadowed.cache_clear = wrapped.cache_clear
            shadowed.__wrapped__ = f
            return shadowed
        return wrapper

    Cached.method = classmethod(method)
    STATE["installed"] = True


@contextlib.contextmanager
def paused():
    """Reference computations on fresh objects run without the shadow."""
    old = STATE["enabled"]
    STATE["enabled"] = False
    try:
        yield
    finally:
        STATE["enabled"] = old


def take_counts():
    """(hits re-evaluated, non-deterministic methods seen) since last call."""
    out = (STATE["hits_checked"], STATE["nondet"])
    STATE["hits_checked"] = STATE["nondet"] = 0
    return out


def reset():
    STATE["events"].clear()
    STATE["stored"].clear()
    STATE["enabled"] = True
    STATE["depth"] = 0


def drain():
    """Events since the last drain, at an operation boundary.  "edited"
    events that no longer reproduce (the library restored the memoised
    object, or the entry is gone) are dropped."""
    if not STATE["installed"]:
        return []
    evs, STATE["events"] = STATE["events"], []
    out = []
    STATE["depth"] += 1
    try:
        for e in evs:
            self, wrapped, f, a, k = e.pop("recheck")
            if e["kind"] == "edited":
                h0 = wrapped.cache_info().hits
                val = C.call(wrapped, self, *a, **k)
                if wrapped.cache_info().hits == h0:
                    continue            # entry gone: recomputed just now
                fresh = C.call(f, self, *a, **k)
                if _close(val, fresh)[0]:
                    continue            # restored by the library
            out.append(e)
    finally:
        STATE["depth"] -= 1
    return out
