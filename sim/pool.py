"""A small fork-based worker pool without threads in the parent.

Every worker is configured (cache knob) *before* it imports pyunicorn, serves
tasks over a pipe, and is killed by the parent when a task exceeds its cap.
"""
import os
import signal
import sys
import time
import traceback
from multiprocessing.connection import Pipe, wait

from . import worker as W


class WorkerDied(Exception):
    pass


class _Proc:
    def __init__(self, src, lru, ident):
        self.lru = lru
        self.ident = ident
        pc, cc = Pipe()
        sys.stdout.flush()
        sys.stderr.flush()
        pid = os.fork()
        if pid == 0:                      # ---- child
            try:
                pc.close()
                signal.signal(signal.SIGINT, signal.SIG_IGN)
                try:
                    W.setup(src, lru)
                    cc.send(("ready", None))
                except BaseException as e:  # noqa: BLE001
                    cc.send(("err", "".join(traceback.format_exception(e))))
                    os._exit(3)
                while True:
                    try:
                        msg = cc.recv()
                    except EOFError:
                        break
                    if msg is None:
                        break
                    fn, args = msg
                    try:
                        res = getattr(W, fn)(*args)
                        cc.send(("ok", res))
                    except BaseException as e:  # noqa: BLE001
                        cc.send(("err", "".join(
                            traceback.format_exception(e))[-4000:]))
            finally:
                os._exit(0)
        cc.close()
        self.pid = pid
        self.conn = pc
        self.busy = None          # (tag, t_start)
        self.ready = False
        self.dead = False

    def kill(self):
        if not self.dead:
            try:
                os.kill(self.pid, signal.SIGKILL)
            except ProcessLookupError:
                pass
            try:
                os.waitpid(self.pid, 0)
            except ChildProcessError:
                pass
            self.dead = True
            try:
                self.conn.close()
            except Exception:
                pass


class Pool:
    def __init__(self, src, lrus):
        """lrus: list with one cache configuration name per worker."""
        self.procs = [_Proc(src, l, i) for i, l in enumerate(lrus)]
        t_end = time.time() + 120
        for p in self.procs:
            if not p.conn.poll(max(0.1, t_end - time.time())):
                self.close()
                raise WorkerDied(f"worker {p.ident} did not start")
            try:
                kind, val = p.conn.recv()
            except EOFError:
                self.close()
                raise WorkerDied(f"worker {p.ident} died during start-up")
            if kind != "ready":
                self.close()
                raise WorkerDied(f"worker {p.ident} start-up failed:\n{val}")
            p.ready = True

    def idle(self, lru=None):
        return [p for p in self.procs if not p.dead and p.busy is None
                and (lru is None or p.lru == lru)]

    def submit(self, proc, tag, fn, args):
        proc.conn.send((fn, args))
        proc.busy = (tag, time.time())

    def busy_count(self):
        return sum(1 for p in self.procs if p.busy is not None and not p.dead)

    def poll(self, timeout, task_cap):
        """Yield (proc, tag, kind, value) for finished tasks; kill and report
        tasks over task_cap seconds as kind 'timeout'."""
        conns = {p.conn: p for p in self.procs
                 if p.busy is not None and not p.dead}
        out = []
        if conns:
            for c in wait(list(conns), timeout):
                p = conns[c]
                tag = p.busy[0]
                try:
                    kind, val = c.recv()
                except (EOFError, OSError):
                    kind, val = "died", f"worker {p.ident} died"
                    p.kill()
                p.busy = None
                out.append((p, tag, kind, val))
        else:
            time.sleep(min(timeout, 0.05))
        now = time.time()
        for p in self.procs:
            if p.busy is not None and not p.dead and \
                    now - p.busy[1] > task_cap:
                tag = p.busy[0]
                p.kill()
                p.busy = None
                out.append((p, tag, "timeout",
                            f"task exceeded {task_cap}s; worker killed"))
        return out

    def call(self, proc, fn, args, cap):
        """Synchronous call on one worker."""
        self.submit(proc, "call", fn, args)
        t_end = time.time() + cap
        while time.time() < t_end:
            for p, tag, kind, val in self.poll(0.5, cap):
                if p is proc:
                    return kind, val
        proc.kill()
        return "timeout", f"call exceeded {cap}s"

    def close(self):
        for p in self.procs:
            if not p.dead:
                try:
                    p.conn.send(None)
                except Exception:
                    pass
        t_end = time.time() + 3
        for p in self.procs:
            if p.dead:
                continue
            while time.time() < t_end:
                try:
                    pid, _ = os.waitpid(p.pid, os.WNOHANG)
                except ChildProcessError:
                    pid = p.pid
                if pid:
                    p.dead = True
                    break
                time.sleep(0.02)
            p.kill()
