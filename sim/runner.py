"""Parent side: build, batch over workers, triage of violations, minimise,
replay verification in a fresh interpreter, evidence."""
import importlib
import json
import os
import subprocess
import sys
import time

from . import build
from . import findings as F
from .pool import Pool, WorkerDied

VERIF = os.path.dirname(os.path.dirname(os.path.abspath(__file__)))
PY = "/venv/bin/python"
MAIN = os.path.join(VERIF, "sim", "main.py")
NPROC = min(16, os.cpu_count() or 1)


EXTRA_EVIDENCE = {}


def log(*a):
    print(*a, file=sys.stderr, flush=True)


def machine_meta(pid):
    return importlib.import_module(f"machines.{pid.lower()}").MACHINE


def harness_exit(msg):
    print(f"HARNESS-ERROR {msg}", flush=True)
    sys.exit(2)


def _fresh(args, env_extra=None, cap=300):
    env = dict(os.environ)
    env.update({"PYTHONHASHSEED": "0"})
    env.update(env_extra or {})
    return subprocess.run(["timeout", str(cap), PY, MAIN] + args, env=env,
                          stdout=subprocess.PIPE, stderr=subprocess.PIPE,
                          text=True)


def check(pid, tier):
    t0 = time.time()
    seed = int(os.environ.get("VERIF_SEED", "0"))
    m = machine_meta(pid)
    print(f"VERIF_SEED={seed} property={pid} tier={tier}", flush=True)
    try:
        src = build.ensure()
    except RuntimeError as e:
        harness_exit(f"build: {e}")
    configs = m.lru_configs(tier)
    bud = dict(m.budget(tier))
    if os.environ.get("VERIF_BUDGET_S"):
        bud["wall"] = float(os.environ["VERIF_BUDGET_S"])
    if os.environ.get("VERIF_MAX_RUNS"):
        bud["max_runs"] = int(os.environ["VERIF_MAX_RUNS"])
    nw = int(os.environ.get("VERIF_WORKERS", NPROC))
    lrus = [configs[i % len(configs)] for i in range(max(nw, len(configs)))]
    try:
        pool = Pool(src, lrus)
    except WorkerDied as e:
        harness_exit(f"worker start-up: {e}")
    t_start = time.time()
    deadline = t_start + bud["wall"]
    chunk = bud.get("chunk", 10)
    task_cap = bud.get("task_cap", 120)
    nconf = len(configs)
    next_k = {c: 0 for c in configs}       # per-config counter
    submitted = 0
    results = []
    harness = []
    stop_new = False

    def next_indices(lru):
        nonlocal submitted
        ci = configs.index(lru)
        idxs = []
        while len(idxs) < chunk and submitted < bud["max_runs"]:
            idxs.append(next_k[lru] * nconf + ci)
            next_k[lru] += 1
            submitted += 1
        return idxs

    try:
        while True:
            if not stop_new and time.time() < deadline \
                    and submitted < bud["max_runs"]:
                for p in pool.idle():
                    idxs = next_indices(p.lru)
                    if not idxs:
                        break
                    pool.submit(p, tuple(idxs), "run_chunk",
                                (pid, seed, tier, p.lru, idxs))
            if pool.busy_count() == 0:
                break
            for p, tag, kind, val in pool.poll(0.5, task_cap):
                if kind == "ok":
                    results.extend(val)
                    if any(r["status"] == "harness" for r in val):
                        stop_new = True
                else:
                    harness.append(f"chunk {tag[:3]}.. on worker {p.ident} "
                                   f"({p.lru}): {kind}: {val}")
                    stop_new = True
        batch_wall = time.time() - t_start
        results.sort(key=lambda r: r["idx"])
        for r in results:
            if r["status"] == "harness":
                harness.append(f"run {r['idx']}: {r.get('error')}")
        if harness:
            for h in harness[:5]:
                log(h)
            write_evidence(m, pid, tier, seed, results, t0, batch_wall,
                           {}, [], None, harness=harness)
            harness_exit(f"{len(harness)} harness errors; first: "
                         f"{harness[0][:1500]}")

        # ---------------- machine-specific parent-side checks
        extra = m.extra_checks(tier, src) or {}
        if extra.get("harness"):
            write_evidence(m, pid, tier, seed, results, t0, batch_wall,
                           {}, [], None, harness=extra["harness"])
            harness_exit(extra["harness"][0])
        if extra.get("violations"):
            results.append({"idx": 10 ** 9, "status": "ok", "digest": "",
                            "violations": [dict(v, victim=None) for v in
                                           extra["violations"]],
                            "run": {"config": {"lru": configs[0]},
                                    "extra_check": True}})
        EXTRA_EVIDENCE.clear()
        EXTRA_EVIDENCE.update(extra.get("evidence") or {})

        # ---------------- determinism self-test on a sample of this batch
        det = determinism_sample(pid, seed, tier, configs, results, m)
        if det["mismatches"]:
            write_evidence(m, pid, tier, seed, results, t0, batch_wall,
                           {}, [], det)
            harness_exit(f"determinism mismatch on runs "
                         f"{det['mismatch_idx'][:5]}")

        # ---------------- violations
        known = F.load(pid)
        known_seen = {}
        unknown = {}          # sig -> first (lowest idx) result
        for r in results:
            for v in r["violations"]:
                k = F.match(known, v["sig"])
                if k is not None:
                    known_seen.setdefault(k["key"], k)
                else:
                    unknown.setdefault(v["sig"], (r, v))
        if os.environ.get("VERIF_DUMP_SIGS"):
            with open(os.environ["VERIF_DUMP_SIGS"], "w") as fh:
                json.dump({s_: {"run": r_["idx"], "detail": v_["detail"]}
                           for s_, (r_, v_) in unknown.items()}, fh, indent=1)
        reported = []
        unreproducible = []
        n_min = int(os.environ.get("VERIF_MINIMISE_N", "3"))
        seen_final = set()
        for sig, (r, v) in list(unknown.items()):
            if len(reported) >= n_min and not os.environ.get("VERIF_ALL"):
                break
            if r["run"].get("extra_check"):
                # parent-side check: nothing to minimise, replayed by
                # running the extra check again
                if F.match(known, sig) is None:
                    path = write_replay(pid, seed, tier, r["idx"], r["run"],
                                        v, 0)
                    reported.append((v, path, r["idx"]))
                continue
            proc = next((p for p in pool.procs
                         if p.lru == r["run"]["config"]["lru"]
                         and not p.dead), None)
            if proc is None:
                harness_exit("no worker left for minimisation")
            # machines whose raw signature is already precise minimise
            # against the exact signature (a run may contain a known finding
            # with the same victim); history machines whose trigger part
            # shrinks with the run minimise against the victim
            target = {"victim": v["victim"]} if (
                v.get("victim") and m.minimise_by == "victim") \
                else {"sig": sig}
            kind, val = pool.call(proc, "minimise",
                                  (pid, r["run"], target, 60.0, 200), 150)
            if kind != "ok":
                log(f"minimise failed ({kind}): {str(val)[:300]}")
                best, fv, nexec = r["run"], v, 0
            else:
                best, fv, nexec = val
                if fv is None:
                    best, fv = r["run"], v
            k = F.match(known, fv["sig"])
            if k is not None:
                known_seen.setdefault(k["key"], k)
                continue
            if fv["sig"] in seen_final:
                continue
            seen_final.add(fv["sig"])
            path = write_replay(pid, seed, tier, r["idx"], best, fv, nexec)
            rr = _fresh(["replay", path, "--quiet"])
            if rr.returncode != 1 or fv["sig"] not in rr.stdout:
                # not a function of the run dictionary alone: the outcome
                # depends on what the worker process did before (state kept
                # in module or class attributes of the library).  The replay
                # then re-executes the worker's earlier runs first.
                log(f"replay of {fv['sig']} alone does not reproduce it; "
                    f"replaying the worker's {len(r.get('history', []))} "
                    f"earlier runs first")
                path = write_replay(pid, seed, tier, r["idx"], r["run"], v,
                                    0, history=r.get("history", []))
                rr = _fresh(["replay", path, "--quiet"], cap=1500)
                if rr.returncode != 1 or v["sig"] not in rr.stdout:
                    log(rr.stdout[-2000:], rr.stderr[-2000:])
                    unreproducible.append((v["sig"], path))
                    continue
                fv = v
            reported.append((fv, path, r["idx"]))
        if unreproducible and not reported:
            harness_exit(f"non-reproducible violation sig="
                         f"{unreproducible[0][0]} replay="
                         f"{unreproducible[0][1]}")
    finally:
        pool.close()

    for k in sorted(known_seen):
        print(f"KNOWN-FINDING: property={pid} {k} -- "
              f"{known_seen[k].get('what', '')}", flush=True)
    for fv, path, idx in reported:
        print(f"violation detail: run={idx} sig={fv['sig']}\n    "
              f"{fv.get('detail', '')[:600]}", flush=True)
        print(f"VIOLATION property={pid} replay={path}", flush=True)
    rest = [s for s in unknown if s not in {fv["sig"] for fv, _, _ in reported}]
    if reported and rest:
        print(f"({len(rest)} further distinct raw violation signatures not "
              f"minimised; first: {rest[:8]})", flush=True)
    write_evidence(m, pid, tier, seed, results, t0, batch_wall, known_seen,
                   reported, det)
    n_ok = sum(1 for r in results if not r["violations"])
    print(f"{pid} {tier}: {len(results)} runs in {batch_wall:.1f}s, "
          f"{n_ok} clean, known-findings={len(known_seen)}, "
          f"violations={len(reported)}", flush=True)
    sys.exit(1 if reported else 0)


def determinism_sample(pid, seed, tier, configs, results, m):
    """Re-execute a sample of this batch's runs in fresh interpreters with a
    different PYTHONHASHSEED and compare digests."""
    per = int(os.environ.get("VERIF_DET_N", m.det_sample(tier)))
    by_lru = {}
    for r in results:
        if r.get("run") is None and r.get("digest") is None:
            continue
        lru = configs[r["idx"] % len(configs)]
        by_lru.setdefault(lru, [])
        if len(by_lru[lru]) < per:
            by_lru[lru].append(r)
    procs = []
    for j, (lru, rs) in enumerate(sorted(by_lru.items())):
        idxs = ",".join(str(r["idx"]) for r in rs)
        env = dict(os.environ)
        env["PYTHONHASHSEED"] = str(101 + j)
        p = subprocess.Popen(
            ["timeout", "600", PY, MAIN, "digests", pid, str(seed), tier,
             lru, idxs], env=env, stdout=subprocess.PIPE,
            stderr=subprocess.PIPE, text=True)
        procs.append((lru, rs, p))
    runs = mism = 0
    bad = []
    for lru, rs, p in procs:
        o, e = p.communicate()
        try:
            d = json.loads(o.strip().splitlines()[-1])
        except Exception:
            harness_exit(f"determinism subprocess failed ({lru}): "
                         f"{o[-500:]} {e[-1500:]}")
        for r in rs:
            runs += 1
            if d.get(str(r["idx"])) != r["digest"]:
                mism += 1
                bad.append(r["idx"])
    return {"runs": runs, "mismatches": mism, "mismatch_idx": bad,
            "how": "fresh interpreter, other PYTHONHASHSEED, serial instead "
                   "of 16 workers"}


def write_replay(pid, seed, tier, idx, run, v, nexec, history=None):
    d = os.environ.get("VERIF_REPLAY_DIR", os.path.join(VERIF, "replays"))
    os.makedirs(d, exist_ok=True)
    path = os.path.join(d, f"{pid}-{seed}-{tier}-{idx}.json")
    with open(path, "w") as fh:
        json.dump({"property": pid, "seed": seed, "tier": tier,
                   "run_index": idx, "signature": v["sig"],
                   "detail": v.get("detail", ""),
                   "minimise_executions": nexec, "run": run,
                   **({"history": {"lru": run["config"]["lru"],
                                   "indices": list(history)},
                       "note": "the outcome depends on state the library "
                               "keeps across objects in one process: the "
                               "replay first re-executes the runs the worker "
                               "had executed before (regenerated from seed, "
                               "tier and index), then this run"}
                      if history else {})}, fh, indent=1,
                  default=str)
    return path


def write_evidence(m, pid, tier, seed, results, t0, batch_wall, known_seen,
                   reported, det, harness=None):
    probes, faults = {}, {}
    steps = 0
    sim_time = 0.0
    nontriv = set()
    allsig = set()
    undefined = 0
    extra = {}
    for r in results:
        for k, v in (r.get("probes") or {}).items():
            probes[k] = probes.get(k, 0) + v
        for k, v in (r.get("faults") or {}).items():
            faults[k] = faults.get(k, 0) + v
        steps += r.get("steps", 0)
        sim_time += r.get("sim_time", 0.0)
        if r.get("opsig"):
            allsig.add(r["opsig"])
            if r.get("nontrivial"):
                nontriv.add(r["opsig"])
        undefined += r.get("undefined", 0)
        for k, v in (r.get("cover") or {}).items():
            extra.setdefault(k, set()).update(v)
    samples = [m.sample(r["run"]) for r in results if r.get("run")][:3]
    zero = sorted(k for k in m.probe_names if probes.get(k, 0) == 0)
    cov = {
        "evaluations": len(results),
        "distinct_nontrivial": len(nontriv),
        "rule": m.rule,
        "samples": samples or ["(no run completed)"],
        "runs": len(results),
        "runs_per_hour": int(len(results) / max(batch_wall, 1e-6) * 3600),
        "steps_total": steps,
        "distinct_op_sequences": len(allsig),
        "fault_counts": {**{k: "n/a" for k in m.faults_na}, **faults},
        "probes": probes,
        "probes_at_zero": zero,
        "real_vs_stub": m.real_vs_stub,
        "determinism_selftest": det,
        "known_findings_seen": sorted(known_seen),
        "undefined_input_runs": undefined,
        "lru_configs": m.lru_configs(tier),
        "coverage_matrix": {k: len(v) for k, v in extra.items()},
        "coverage_lists": {k: sorted(v) for k, v in extra.items()
                           if len(v) <= 60},
        "workers": NPROC,
    }
    cov.update(EXTRA_EVIDENCE)
    if m.has_clock:
        cov["simulated_time_s"] = round(sim_time, 3)
    else:
        cov["simulated_time_s"] = "n/a (no clock in this surface; " \
                                  "logical steps reported instead)"
    if harness:
        cov["harness_errors"] = harness[:5]
    ev = {"property_id": pid, "tier": tier, "seed": seed,
          "level": "exploration", "coverage": cov,
          "assumptions": m.assumptions,
          "wall_s": round(time.time() - t0, 2),
          "violations": len(reported)}
    evdir = os.environ.get("VERIF_EVIDENCE_DIR",
                           os.path.join(VERIF, "evidence"))
    os.makedirs(evdir, exist_ok=True)
    with open(os.path.join(evdir, f"{pid}.json"), "w") as fh:
        json.dump(ev, fh, indent=1, default=str)
    if zero:
        log(f"warning: probes at zero: {zero}")


def replay(path, quiet=False):
    with open(path) as fh:
        rep = json.load(fh)
    pid = rep["property"]
    try:
        src = build.ensure(verbose=False)
    except RuntimeError as e:
        harness_exit(f"build: {e}")
    if rep["run"].get("extra_check"):
        extra = machine_meta(pid).extra_checks("thorough", src) or {}
        hit = [v for v in extra.get("violations", [])
               if v["sig"] == rep["signature"]]
        for v in hit:
            print(f"violation sig={v['sig']}\n    {v['detail'][:800]}")
            print(f"VIOLATION property={pid} replay={path}", flush=True)
        sys.exit(1 if hit else 0)
    from . import worker as W
    W.setup(src, rep["run"]["config"]["lru"])
    if rep.get("history"):
        mm = W.machine(pid)
        for i_ in rep["history"]["indices"]:
            W.execute(pid, mm.generate(rep["seed"], rep["tier"], i_,
                                       rep["history"]["lru"]))
    res = W.execute(pid, rep["run"])
    o = W.out()
    if res["status"] == "harness":
        print(f"HARNESS-ERROR replay: {res.get('error')}", file=o, flush=True)
        sys.exit(2)
    hit = [v for v in res["violations"] if v["sig"] == rep["signature"]]
    for v in res["violations"]:
        print(f"violation sig={v['sig']}\n    {v.get('detail', '')[:800]}",
              file=o)
    if not quiet:
        for line in res.get("trace", [])[-40:]:
            print("  trace:", str(line)[:200], file=o)
    print(f"digest={res['digest']}", file=o)
    if hit:
        print(f"VIOLATION property={pid} replay={path}", file=o, flush=True)
        sys.exit(1)
    if res["violations"]:
        print("other violations than the recorded signature", file=o)
        known = F.load(pid)
        if all(F.match(known, v["sig"]) for v in res["violations"]):
            sys.exit(0)
        print(f"VIOLATION property={pid} replay={path}", file=o, flush=True)
        sys.exit(1)
    print("replay: no violation", file=o, flush=True)
    sys.exit(0)


def digests(pid, seed, tier, lru, idxs):
    src = build.ensure(verbose=False)
    from . import worker as W
    W.setup(src, lru)
    d = W.digests_chunk(pid, int(seed), tier, lru,
                        [int(i) for i in idxs.split(",") if i])
    print(json.dumps({str(k): v for k, v in d.items()}), file=W.out(),
          flush=True)
